/-
  Props.C08Sections — Part 4 of C08: the read/encode round trip for the sections that carry names, constant
  expressions and byte ranges, and the combined statements.

  Grammar side: `Spec.BinarySections` (`EncName`, `EncGlobalType`, `EncCInstr`/`EncExpr`, `EncImport`, `EncGlobal`,
  `EncExport`, `EncElem` (all eight release-2.0 forms), `EncLocals`/`EncCode`, `EncData` (forms 0/1/2), `EncPayload`,
  `EncSec`, `EncSecs`), written from the specification.  Reader side: `Model.Reader` (tied to reader.c by the
  `reader-dump` correspondence on every run).

  Per section, in the shape of Part 3 (`section m (payload ++ rest) = .ok ({ m with … }, rest)`):
    `importSection_roundtrip`, `globalSection_roundtrip`, `exportSection_roundtrip`, `elementSection_roundtrip`,
    `codeSection_roundtrip`, `dataSection_roundtrip`, `customSection_roundtrip`, `nameSection_roundtrip` (`-g`).
  Combined:
    `read_encode_roundtrip`   one framed section of ANY of the 13 kinds through `wasmModuleReadSection`
                              (dispatch by id, section reader, consumed-exactly check);
    `module_roundtrip`        magic + any sequence of sections through `wasmModuleRead`;
    `module_encodings_agree`  two encodings of the same sections are both accepted and give the same module;
    `data_flag0_eq_flag2`     forms 0 and 2/memory 0 of a data segment give the same `WasmDataSegment`.
  (`custom_section_skipped`, `sections_framing_invariant` of Part 2 are the relational statements about custom
  sections; `customSection_roundtrip` is the functional one.)

  Abstract content (`abs…`) = what the reader stores; where that deviates from the grammar object it says so:
    * names are stored as C strings: `cstr` cuts at the first NUL byte (`absExport`, `addImport`);
    * limits: `absMemLimits` / `absTableLimits` of Part 3;
    * constant expressions, function bodies: the byte range of the file, verbatim (`Located.expr`, `Code.body`) —
      see "the stored expression bytes" below; the immediates inside bodies and the locals vector are decoded later,
      by the C writer: Part 5, `Props/C08Instr.lean` (`instr_immediates_leb`, `locals_type_lookup`);
    * `Function.start` = offset of the body from the start of the code-section payload; `hashed` = the bytes given
      to SHA-1 (locals and instructions);
    * data segments: the form (flag) is not stored, hence `data_flag0_eq_flag2`.
  Hypotheses (`accepts`, a `Bool`; each with a witness of non-vacuity and, at the end, what the reader does outside):
    * `supportedExpr`   constant expressions are `end` or ONE of i32/i64/f32/f64.const, global.get, then `end`
                        (`ref.null`, `ref.func`, longer sequences: rejected);
    * `supportedElems`  element segments in form 0 only (the reader implements the MVP grammar and stores the leading
                        `u32` as table index without looking at it: forms 1-7 are rejected or misread);
    * `exportValid`     function exports name an existing function (else `InvalidExportSectionExportIndex`);
    * function section: type indices below the number of types (Part 3); code section: one entry per function;
    * `customSkipped`   the custom section is not the name section under `-g` (that one is `nameSection_roundtrip`);
    * code section: the buffer is a suffix of the file (`≤ m.length`), which `module_roundtrip` discharges.
-/
import W2c2Verif.Props.C08
import W2c2Verif.Spec.BinarySections

namespace W2c2Verif.Props.C08
open W2c2Verif.Model W2c2Verif.Model.Reader W2c2Verif.Spec.Binary W2c2Verif.Lemmas.Reader
open W2c2Verif.Gen

/-! ### primitives -/

theorem byte_cons (e : Nat) (b : UInt8) (bs : Bytes) : byte e (b :: bs) = .ok (b, bs) := rfl

theorem i32_sleb (e : Nat) {v : Int} {b : List UInt8} (h : SLeb 32 v b) (rest : Bytes) :
    i32 e (b ++ rest) = .ok (v, rest) := by
  have hr := leb_s_decode_32 v b rest h
  rw [i32_run, hr]
  have : b.length ≠ 0 := by have := h.length_pos; omega
  exact if_neg this

theorem i64_sleb (strict : Bool) (e : Nat) {v : Int} {b : List UInt8} (h : SLeb 64 v b) (rest : Bytes) :
    i64 strict e (b ++ rest) = .ok (v, rest) := by
  have hr := leb_s_decode_64 v b rest h
  rw [i64_run, hr]
  have : b.length ≠ 0 := by have := h.length_pos; omega
  simp [this]

theorem fixed_enc (n e : Nat) {b : List UInt8} (h : b.length = n) (rest : Bytes) :
    fixed n e (b ++ rest) = .ok (b, rest) := by
  have hrun : fixed n e (b ++ rest) =
      if (b ++ rest).length < n then .err e else .ok ((b ++ rest).take n, (b ++ rest).drop n) := rfl
  rw [hrun, if_neg (by rw [List.length_append]; omega), List.take_left' h, List.drop_left' h]

/-- `wasmReadName` on a grammar name: what is stored is the C string, i.e. the bytes before the first NUL. -/
theorem name_encName (e : Nat) {nm b : List UInt8} (h : EncName nm b) (rest : Bytes) :
    name e (b ++ rest) = .ok (cstr nm, rest) := by
  cases h with
  | @mk nsz hn => rw [List.append_assoc]; exact name_enc e hn rest

/-- `wasmReadBytes` on `vec(byte)`: all bytes, verbatim. -/
theorem bytesVec_enc (e : Nat) {bs b : List UInt8} (h : EncName bs b) (rest : Bytes) :
    bytesVec e (b ++ rest) = .ok (bs, rest) := by
  cases h with
  | @mk nsz hn =>
    rw [List.append_assoc]
    unfold bytesVec
    rw [bind_eq_of_ok (u32_uleb e hn (bs ++ rest))]
    have hrun : takeExact id e bs.length (bs ++ rest) =
        if (bs ++ rest).length < bs.length then .err e
        else .ok (id ((bs ++ rest).take bs.length), (bs ++ rest).drop bs.length) := rfl
    rw [hrun, if_neg (by rw [List.length_append]; omega), List.take_left' rfl, List.drop_left' rfl]
    rfl

/-- a reader that consumed exactly `eb` leaves `eb` as its slice -/
theorem sliced_enc {p : P Unit} {eb rest : Bytes} (h : p (eb ++ rest) = .ok ((), rest)) :
    sliced p (eb ++ rest) = .ok (eb, rest) := by
  rw [sliced_run, h]
  show Res.ok (_, rest) = _
  rw [List.length_append, Nat.add_sub_cancel, List.take_left' rfl]

/-! ### global types -/

def absGT (gt : GlobTy) : GlobalType := { valueType := absVT gt.ty, mutable := gt.mutable }

theorem globalType_enc (gt : GlobTy) (b rest : List UInt8) (h : EncGlobalType gt b) :
    globalType (b ++ rest) = .ok (absGT gt, rest) := by
  rw [h]
  unfold globalType
  have hv : valueType E.invalidValueType ([gt.ty.byte] ++ (mutByte gt.mutable :: rest)) =
      .ok (absVT gt.ty, mutByte gt.mutable :: rest) := valueType_enc _ gt.ty _ _ rfl
  have hl : [gt.ty.byte, mutByte gt.mutable] ++ rest = [gt.ty.byte] ++ (mutByte gt.mutable :: rest) := rfl
  rw [hl, bind_eq_of_ok hv, bind_eq_of_ok (byte_cons _ _ _), ite_run]
  cases hm : gt.mutable <;> simp [mutByte, absGT, hm] <;> rfl

/-! ### constant expressions

`wasmReadConstantExpr` accepts one of `i32.const`, `i64.const`, `f32.const`, `f64.const`, `global.get` followed by
`end`, or `end` alone.  It does not know `ref.null` / `ref.func` (release 2.0) and no sequence of two or more
instructions (extended-const proposal): those are rejected with the caller's error code.  The predicate below is
the hypothesis the round-trip theorems carry. -/

def supportedInstr : CInstr → Bool
  | .i32const _ | .i64const _ | .f32const _ | .f64const _ | .globalGet _ => true
  | .refNull _ | .refFunc _ => false

/-- constant expressions `wasmReadConstantExpr` accepts -/
def supportedExpr : List CInstr → Bool
  | [] => true
  | [i] => supportedInstr i
  | _ => false

theorem endByte_run (e : Nat) (rest : Bytes) :
    (byte e >>= fun op2 => if op2.toNat ≠ Reader.opcodeEnd then (P.fail e : P Unit) else pure ()) ([0x0B] ++ rest) =
      .ok ((), rest) := rfl

theorem constExpr_enc (cfg : Cfg) (e : Nat) {ce : List CInstr} {eb : List UInt8} (h : EncExpr ce eb)
    (hs : supportedExpr ce = true) (rest : Bytes) : constExpr cfg e (eb ++ rest) = .ok ((), rest) := by
  cases h with
  | @mk body hb =>
    cases hb with
    | nil => rfl
    | @cons i is b bs hi ht =>
      cases ht with
      | cons _ _ => cases hs
      | nil =>
        rw [List.append_nil, List.append_assoc]
        unfold constExpr
        cases hi with
        | @i32const v lb hl =>
          rw [List.cons_append, bind_eq_of_ok (byte_cons _ _ _)]
          have hk : Reader.constExprConsts.find? (fun r => r.2.1 = (0x41 : UInt8).toNat) =
              some ("wasmOpcodeI32Const", 65, "leb128ReadI32") := by decide
          rw [hk]
          show (constImmediate cfg e "leb128ReadI32" >>= _) _ = _
          have hc : constImmediate cfg e "leb128ReadI32" (lb ++ ([0x0B] ++ rest)) = .ok ((), [0x0B] ++ rest) := by
            show (i32 e >>= fun _ => pure ()) _ = _
            rw [bind_eq_of_ok (i32_sleb e hl _)]; rfl
          rw [bind_eq_of_ok hc]
          exact endByte_run e rest
        | @i64const v lb hl =>
          rw [List.cons_append, bind_eq_of_ok (byte_cons _ _ _)]
          have hk : Reader.constExprConsts.find? (fun r => r.2.1 = (0x42 : UInt8).toNat) =
              some ("wasmOpcodeI64Const", 66, "leb128ReadI64") := by decide
          rw [hk]
          show (constImmediate cfg e "leb128ReadI64" >>= _) _ = _
          have hc : constImmediate cfg e "leb128ReadI64" (lb ++ ([0x0B] ++ rest)) = .ok ((), [0x0B] ++ rest) := by
            show (i64 cfg.strict e >>= fun _ => pure ()) _ = _
            rw [bind_eq_of_ok (i64_sleb _ e hl _)]; rfl
          rw [bind_eq_of_ok hc]
          exact endByte_run e rest
        | @f32const bits hl =>
          rw [List.cons_append, bind_eq_of_ok (byte_cons _ _ _)]
          have hk : Reader.constExprConsts.find? (fun r => r.2.1 = (0x43 : UInt8).toNat) =
              some ("wasmOpcodeF32Const", 67, "bufferReadF32") := by decide
          rw [hk]
          show (constImmediate cfg e "bufferReadF32" >>= _) _ = _
          have hc : constImmediate cfg e "bufferReadF32" (bits ++ ([0x0B] ++ rest)) = .ok ((), [0x0B] ++ rest) := by
            show (fixed 4 e >>= fun _ => pure ()) _ = _
            rw [bind_eq_of_ok (fixed_enc 4 e hl _)]; rfl
          rw [bind_eq_of_ok hc]
          exact endByte_run e rest
        | @f64const bits hl =>
          rw [List.cons_append, bind_eq_of_ok (byte_cons _ _ _)]
          have hk : Reader.constExprConsts.find? (fun r => r.2.1 = (0x44 : UInt8).toNat) =
              some ("wasmOpcodeF64Const", 68, "bufferReadF64") := by decide
          rw [hk]
          show (constImmediate cfg e "bufferReadF64" >>= _) _ = _
          have hc : constImmediate cfg e "bufferReadF64" (bits ++ ([0x0B] ++ rest)) = .ok ((), [0x0B] ++ rest) := by
            show (fixed 8 e >>= fun _ => pure ()) _ = _
            rw [bind_eq_of_ok (fixed_enc 8 e hl _)]; rfl
          rw [bind_eq_of_ok hc]
          exact endByte_run e rest
        | @globalGet x lb hl =>
          rw [List.cons_append, bind_eq_of_ok (byte_cons _ _ _)]
          have hk : Reader.constExprConsts.find? (fun r => r.2.1 = (0x23 : UInt8).toNat) = none := by decide
          rw [hk]
          dsimp only
          rw [ite_run, if_pos (by decide), bind_eq_of_ok (u32_uleb e hl _)]
          exact endByte_run e rest
        | refNull t => cases hs
        | refFunc hl => cases hs

/-- the offset / initialiser slice: exactly the bytes of the expression -/
theorem slicedConstExpr_enc (cfg : Cfg) (e : Nat) {ce : List CInstr} {eb : List UInt8} (h : EncExpr ce eb)
    (hs : supportedExpr ce = true) (rest : Bytes) : sliced (constExpr cfg e) (eb ++ rest) = .ok (eb, rest) :=
  sliced_enc (constExpr_enc cfg e h hs rest)

/-! ### generic loops over encoded sequences -/

/-- `iter` over the encodings of a sequence: a state-passing loop computes the fold, given an invariant of the
    state under which every step succeeds. -/
theorem iter_enc {α σ : Type} {E : α → List UInt8 → Prop} {f : σ → P σ} {g : σ → α → σ} (I : σ → Prop) :
    ∀ {as : List α} {body : List UInt8}, EncSeq E as body →
      (∀ s, I s → ∀ a ∈ as, ∀ b rest, E a b → f s (b ++ rest) = .ok (g s a, rest) ∧ I (g s a)) →
      ∀ s, I s → ∀ rest, iter f as.length s (body ++ rest) = .ok (as.foldl g s, rest) := by
  intro as body h
  induction h with
  | nil => intro _ s _ rest; rfl
  | @cons a as b bs ha _ ih =>
    intro hp s hs rest
    show (f s >>= fun s' => iter f as.length s') ((b ++ bs) ++ rest) = _
    obtain ⟨h1, h2⟩ := hp s hs a (by simp) b (bs ++ rest) ha
    rw [List.append_assoc, bind_eq_of_ok h1]
    exact ih (fun s' hs' x hx => hp s' hs' x (by simp [hx])) _ h2 rest

/-- `vec` with a partial abstraction function: the elements on which it is defined are read back -/
theorem vec_enc_opt {α β : Type} {E : α → List UInt8 → Prop} {p : P β} {f : α → Option β}
    (hp : ∀ a v, f a = some v → ∀ b rest, E a b → p (b ++ rest) = .ok (v, rest)) :
    ∀ {as : List α} {body : List UInt8}, EncSeq E as body → (∀ a ∈ as, (f a).isSome = true) →
      ∀ rest, vec p as.length (body ++ rest) = .ok (as.filterMap f, rest) := by
  intro as body h
  induction h with
  | nil => intro _ rest; rfl
  | @cons a as b bs ha _ ih =>
    intro hs rest
    show (p >>= fun x => vec p as.length >>= fun xs => pure (x :: xs)) ((b ++ bs) ++ rest) = _
    obtain ⟨v, hv⟩ := Option.isSome_iff_exists.1 (hs a (by simp))
    rw [List.append_assoc, bind_eq_of_ok (hp a v hv b (bs ++ rest) ha),
      bind_eq_of_ok (ih (fun x hx => hs x (by simp [hx])) rest), List.filterMap_cons_some hv]
    rfl

/-! ### global section -/

/-- what `wasmReadGlobal` stores: the type, and the initialiser as the byte range of the file it occupies -/
def absGlobal (g : Located Glob) : Global := { type := absGT g.val.type, init := g.expr }

def supportedGlobals (gs : List (Located Glob)) : Bool := gs.all fun g => supportedExpr g.val.init

theorem globalEntry_enc_at (cfg : Cfg) (g : Glob) (eb b rest : List UInt8) (h : EncGlobal g eb b)
    (hs : supportedExpr g.init = true) :
    globalEntry cfg (b ++ rest) = .ok ({ type := absGT g.type, init := eb }, rest) := by
  cases h with
  | @mk t _ ht he =>
    unfold globalEntry
    rw [List.append_assoc, bind_eq_of_ok (globalType_enc _ _ _ ht), bind_eq_of_ok (slicedConstExpr_enc cfg _ he hs rest)]
    rfl

theorem globalEntry_enc (cfg : Cfg) (g : Located Glob) (b rest : List UInt8) (h : EncGlobal g.val g.expr b)
    (hs : supportedExpr g.val.init = true) : globalEntry cfg (b ++ rest) = .ok (absGlobal g, rest) :=
  globalEntry_enc_at cfg g.val g.expr b rest h hs

/-- global section: global types, initialisers `i32.const`/`i64.const` (any `s32`/`s64` padding), `f32.const`,
    `f64.const`, `global.get` (any padding of the index), terminated by `end`; the initialiser bytes are kept
    verbatim. -/
theorem globalSection_roundtrip (cfg : Cfg) (m : RawModule) (gs : List (Located Glob)) (payload rest : List UInt8)
    (h : EncVector (fun (g : Located Glob) b => EncGlobal g.val g.expr b) gs payload) (hs : supportedGlobals gs = true) :
    globalSection cfg m (payload ++ rest) = .ok ({ m with globals := gs.map absGlobal }, rest) := by
  cases h with
  | @mk c body hc hb =>
    unfold globalSection
    rw [List.append_assoc, bind_eq_of_ok (u32_uleb _ hc _)]
    have hentry : ∀ g ∈ gs, ∀ (b rest : List UInt8), EncGlobal g.val g.expr b →
        globalEntry cfg (b ++ rest) = .ok (absGlobal g, rest) := fun g hg b rest hb =>
      globalEntry_enc cfg g b rest hb (List.all_eq_true.1 hs g hg)
    rw [bind_eq_of_ok (vec_enc_mem hb hentry rest)]
    rfl

/-! ### import section -/

/-- what `wasmReadImport` appends: names as C strings, limits with the default / clamped maxima of
    `wasmReadMemoryType` / `wasmReadTableType` -/
def addImport (m : RawModule) (i : Imp) : RawModule :=
  match i.desc with
  | .func x => { m with funcImports := m.funcImports ++ [{ module := cstr i.module, name := cstr i.name, typeIndex := x }] }
  | .table l => { m with tableImports := m.tableImports ++ [{ module := cstr i.module, name := cstr i.name, limits := absTableLimits l }] }
  | .mem l => { m with memImports := m.memImports ++ [{ module := cstr i.module, name := cstr i.name, limits := absMemLimits l }] }
  | .global gt => { m with globalImports := m.globalImports ++ [{ module := cstr i.module, name := cstr i.name, globalType := absGT gt }] }

theorem importEntry_enc (m : RawModule) (i : Imp) (b rest : List UInt8) (h : EncImport i b) :
    importEntry m (b ++ rest) = .ok (addImport m i, rest) := by
  cases h with
  | @mk a b' c ha hb hc =>
    unfold importEntry
    rw [List.append_assoc, List.append_assoc, bind_eq_of_ok (name_encName _ ha _), bind_eq_of_ok (name_encName _ hb _)]
    have hcnt : kindCount Reader.importKinds "wasmImportKind_count" = 4 := by decide
    rw [hcnt]
    generalize hdesc : i.desc = desc at hc
    cases hc with
    | @func x d hd =>
      rw [List.cons_append, bind_eq_of_ok (byte_cons _ _ _), ite_run, if_neg (by decide)]
      have hk : kindName Reader.importKinds (0x00 : UInt8).toNat = "wasmImportKindFunction" := by decide
      rw [hk]
      show (u32 E.invalidImportSectionFunctionTypeIndex >>= _) _ = _
      rw [bind_eq_of_ok (u32_uleb _ hd rest)]
      simp only [addImport, hdesc]
      rfl
    | @table l d hd =>
      rw [List.cons_append, bind_eq_of_ok (byte_cons _ _ _), ite_run, if_neg (by decide)]
      have hk : kindName Reader.importKinds (0x01 : UInt8).toNat = "wasmImportKindTable" := by decide
      rw [hk]
      show (tableType >>= _) _ = _
      rw [bind_eq_of_ok (tableType_enc l d rest hd)]
      simp only [addImport, hdesc]
      rfl
    | @mem l d hd =>
      rw [List.cons_append, bind_eq_of_ok (byte_cons _ _ _), ite_run, if_neg (by decide)]
      have hk : kindName Reader.importKinds (0x02 : UInt8).toNat = "wasmImportKindMemory" := by decide
      rw [hk]
      show (memoryType >>= _) _ = _
      rw [bind_eq_of_ok (memoryType_enc l d rest hd)]
      simp only [addImport, hdesc]
      rfl
    | @global gt d hd =>
      rw [List.cons_append, bind_eq_of_ok (byte_cons _ _ _), ite_run, if_neg (by decide)]
      have hk : kindName Reader.importKinds (0x03 : UInt8).toNat = "wasmImportKindGlobal" := by decide
      rw [hk]
      show (globalType >>= _) _ = _
      rw [bind_eq_of_ok (globalType_enc gt d rest hd)]
      simp only [addImport, hdesc]
      rfl

/-- import section: module and field names of any LEB-padded length, the four descriptor kinds.  The entries are
    appended to the four import vectors in file order. -/
theorem importSection_roundtrip (m : RawModule) (is : List Imp) (payload rest : List UInt8)
    (h : EncVector EncImport is payload) :
    importSection m (payload ++ rest) = .ok (is.foldl addImport m, rest) := by
  cases h with
  | @mk c body hc hb =>
    unfold importSection
    rw [List.append_assoc, bind_eq_of_ok (u32_uleb _ hc _)]
    exact iter_enc (fun _ => True) hb (fun s _ a _ b rest hE => ⟨importEntry_enc s a b rest hE, trivial⟩) m trivial rest

/-! ### export section -/

def absExport (e : Exp) : Model.Reader.Export :=
  { name := cstr e.name, kind := e.desc.kindByte.toNat, index := e.desc.index }

/-- `functions.functions[functionIndex - functionImportCount].exportName = export.name` for exported, defined
    (not imported) functions -/
def markExport (importCount : Nat) (fs : List Function) (e : Exp) : List Function :=
  match e.desc with
  | .func x => if importCount ≤ x then setExportName fs (x - importCount) (cstr e.name) else fs
  | _ => fs

/-- The function index of a function export of a valid module is below the number of functions (imported +
    declared by the function section read so far); an index that is not is rejected with
    `InvalidExportSectionExportIndex`.  (Table / memory / global indices are not checked by the reader.) -/
def exportValid (m : RawModule) (e : Exp) : Bool :=
  match e.desc with
  | .func x => decide (x < (m.funcImports.length + m.functions.length) % u32Max)
  | _ => true

theorem exportEntry_enc (e : Exp) (b rest : List UInt8) (h : EncExport e b) :
    exportEntry (b ++ rest) = .ok (absExport e, rest) := by
  cases h with
  | @mk a d ha hd =>
    unfold exportEntry
    rw [List.append_assoc, bind_eq_of_ok (name_encName _ ha _), List.cons_append, bind_eq_of_ok (byte_cons _ _ _), ite_run]
    have hcnt : kindCount Reader.exportKinds "wasmExportKind_count" = 4 := by decide
    have hk : ¬ (4 ≤ e.desc.kindByte.toNat) := by cases e.desc <;> simp [ExpDesc.kindByte]
    rw [hcnt, if_neg hk, bind_eq_of_ok (u32_uleb _ hd rest)]
    rfl

theorem setExportName_length (fs : List Function) (i : Nat) (nm : Bytes) : (setExportName fs i nm).length = fs.length := by
  simp [setExportName]

theorem markExport_length (ic : Nat) (fs : List Function) (e : Exp) : (markExport ic fs e).length = fs.length := by
  unfold markExport
  split
  · split
    · exact setExportName_length _ _ _
    · rfl
  · rfl

theorem exportStep_enc (ic fl : Nat) (st : List Function × List Model.Reader.Export) (hst : st.1.length = fl)
    (e : Exp) (b rest : List UInt8) (h : EncExport e b)
    (hv : ∀ x, e.desc = .func x → x < (ic + fl) % u32Max) :
    exportStep ic ((ic + fl) % u32Max) st (b ++ rest) = .ok ((markExport ic st.1 e, st.2 ++ [absExport e]), rest) := by
  unfold exportStep
  rw [bind_eq_of_ok (exportEntry_enc e b rest h)]
  cases hd : e.desc with
  | func x =>
    have hkind : (absExport e).kind = 0 := by simp [absExport, hd, ExpDesc.kindByte]
    have hidx : (absExport e).index = x := by simp [absExport, hd, ExpDesc.index]
    have hk : kindName Reader.exportKinds 0 = "wasmExportKindFunction" := by decide
    have hx := hv x hd
    have hmod : (ic + fl) % u32Max ≤ ic + fl := Nat.mod_le _ _
    rw [hkind, hk, if_pos rfl, hidx, ite_run, if_neg (by omega), ite_run]
    by_cases hic : ic ≤ x
    · rw [if_pos hic, ite_run, if_pos (by omega)]
      simp only [markExport, hd, if_pos hic]
      rfl
    · rw [if_neg hic]
      simp only [markExport, hd, if_neg hic]
      rfl
  | table x =>
    have hkind : (absExport e).kind = 1 := by simp [absExport, hd, ExpDesc.kindByte]
    have hk : ¬ (kindName Reader.exportKinds 1 = "wasmExportKindFunction") := by decide
    rw [hkind, if_neg hk]
    simp only [markExport, hd]
    rfl
  | mem x =>
    have hkind : (absExport e).kind = 2 := by simp [absExport, hd, ExpDesc.kindByte]
    have hk : ¬ (kindName Reader.exportKinds 2 = "wasmExportKindFunction") := by decide
    rw [hkind, if_neg hk]
    simp only [markExport, hd]
    rfl
  | global x =>
    have hkind : (absExport e).kind = 3 := by simp [absExport, hd, ExpDesc.kindByte]
    have hk : ¬ (kindName Reader.exportKinds 3 = "wasmExportKindFunction") := by decide
    rw [hkind, if_neg hk]
    simp only [markExport, hd]
    rfl

theorem foldl_exports (ic : Nat) (es : List Exp) : ∀ (fs : List Function) (xs : List Model.Reader.Export),
    es.foldl (fun (st : List Function × List Model.Reader.Export) e => (markExport ic st.1 e, st.2 ++ [absExport e])) (fs, xs) =
      (es.foldl (markExport ic) fs, xs ++ es.map absExport) := by
  induction es with
  | nil => intro fs xs; simp
  | cons e es ih => intro fs xs; simp [List.foldl_cons, ih]

/-- export section: names of any LEB-padded length, the four export kinds, indices in any padding; exported
    functions defined in this module get their `exportName`. -/
theorem exportSection_roundtrip (m : RawModule) (es : List Exp) (payload rest : List UInt8)
    (h : EncVector EncExport es payload) (hv : es.all (exportValid m) = true) :
    exportSection m (payload ++ rest) =
      .ok ({ m with functions := es.foldl (markExport m.funcImports.length) m.functions, exports := es.map absExport }, rest) := by
  cases h with
  | @mk c body hc hb =>
    unfold exportSection
    rw [List.append_assoc, bind_eq_of_ok (u32_uleb _ hc _)]
    have hstep := iter_enc (f := exportStep m.funcImports.length ((m.funcImports.length + m.functions.length) % u32Max))
      (g := fun (st : List Function × List Model.Reader.Export) e => (markExport m.funcImports.length st.1 e, st.2 ++ [absExport e]))
      (fun st => st.1.length = m.functions.length) hb
      (fun s hs a ha b rest hE => ⟨exportStep_enc _ _ s hs a b rest hE (fun x hx => by
          have := List.all_eq_true.1 hv a ha
          simpa [exportValid, hx] using this),
        by show (markExport _ s.1 a).length = _; rw [markExport_length]; exact hs⟩)
      (m.functions, []) rfl rest
    rw [bind_eq_of_ok hstep, foldl_exports]
    rfl

/-! ### element section

`wasmReadElementSegment` implements the MVP grammar `elem ::= x:tableidx e:expr y*:vec(funcidx)`: it reads a `u32`,
stores it as `tableIndex` WITHOUT looking at its value, then an offset expression and a vector of function indices.
Under the release-2.0 grammar that leading `u32` selects one of eight forms; only form 0 (active, table 0, function
indices) coincides with what the reader parses.  The other seven forms — including form 2 with table index 0, the
second encoding of the very same abstract segment — are not decoded: typically rejected (the byte after the flag is
not a constant opcode), but not because the reader looks at the flag (see the examples after the theorem).
`absElem` is therefore partial, and the round trip carries `supportedElems`. -/

/-- what `wasmReadElementSegment` stores for a segment in form 0; no abstract content for the other forms -/
def absElem (s : ElemLoc) : Option ElemSegment :=
  match s.flag, s.seg with
  | 0, .activeFuncs 0 e fs => if supportedExpr e then some { tableIndex := 0, offset := s.expr, funcs := fs } else none
  | _, _ => none

def supportedElems (es : List ElemLoc) : Bool := es.all fun s => (absElem s).isSome

theorem elemEntry_enc_at (cfg : Cfg) (flag : Nat) (seg : ElemSeg) (ob b rest : List UInt8) (h : EncElem flag seg ob b)
    (v : ElemSegment) (hv : absElem ⟨seg, flag, ob⟩ = some v) : elemEntry cfg (b ++ rest) = .ok (v, rest) := by
  cases h with
  | @f0 e ys f _ y hf he hy =>
    simp only [absElem] at hv
    split at hv
    · rename_i hs
      cases hv
      unfold elemEntry
      rw [List.append_assoc, List.append_assoc, bind_eq_of_ok (u32_uleb _ hf _),
        bind_eq_of_ok (slicedConstExpr_enc cfg _ he hs _)]
      cases hy with
      | @mk c body hc hb =>
        rw [List.append_assoc, bind_eq_of_ok (u32_uleb _ hc _)]
        have := vec_enc (p := u32 E.invalidElementSectionFunctionIndex) (f := fun (i : Nat) => i)
          (fun a b rest h => u32_uleb _ h rest) hb rest
        rw [bind_eq_of_ok this, List.map_id']
        rfl
    · cases hv
  | f1 hf hy => simp [absElem] at hv
  | f2 hf hx he hy => simp [absElem] at hv
  | f3 hf hy => simp [absElem] at hv
  | f4 hf he hy => simp [absElem] at hv
  | f5 hf hrt hy => simp [absElem] at hv
  | f6 hf hx he hrt hy => simp [absElem] at hv
  | f7 hf hrt hy => simp [absElem] at hv

/-- element section: segments in form 0 — flag and counts in any padding, offset expression kept verbatim, function
    indices in any padding. -/
theorem elementSection_roundtrip (cfg : Cfg) (m : RawModule) (es : List ElemLoc) (payload rest : List UInt8)
    (h : EncVector (fun (s : ElemLoc) b => EncElem s.flag s.seg s.expr b) es payload) (hs : supportedElems es = true) :
    elementSection cfg m (payload ++ rest) = .ok ({ m with elems := es.filterMap absElem }, rest) := by
  cases h with
  | @mk c body hc hb =>
    unfold elementSection
    rw [List.append_assoc, bind_eq_of_ok (u32_uleb _ hc _)]
    have hv := vec_enc_opt (p := elemEntry cfg) (f := absElem)
      (fun a v hv b rest hE => elemEntry_enc_at cfg a.flag a.seg a.expr b rest hE v hv) hb
      (fun a ha => List.all_eq_true.1 hs a ha) rest
    rw [bind_eq_of_ok hv]
    rfl

/-- under `supportedElems` nothing is dropped: every segment has its abstract content, in order -/
theorem supportedElems_filterMap (es : List ElemLoc) (hs : supportedElems es = true) :
    (es.filterMap absElem).map some = es.map absElem := by
  induction es with
  | nil => rfl
  | cons a as ih =>
    have ha : (absElem a).isSome = true := List.all_eq_true.1 hs a (by simp)
    have hs' : supportedElems as = true := by
      simp only [supportedElems, List.all_cons, Bool.and_eq_true] at hs ⊢; exact hs.2
    obtain ⟨v, hv⟩ := Option.isSome_iff_exists.1 ha
    rw [List.filterMap_cons_some hv, List.map_cons, List.map_cons, ih hs', hv]

/-! ### data section -/

/-- what `wasmReadDataSegment` stores: memory index, offset expression bytes (none for passive), data bytes, passive.
    The form (flag) does not enter. -/
def absData (s : DataLoc) : DataSegment :=
  match s.seg with
  | .active x _ bs => { memoryIndex := x, offset := s.expr, bytes := bs, passive := false }
  | .passive bs => { memoryIndex := 0, offset := [], bytes := bs, passive := true }

def supportedData (s : DataLoc) : Bool :=
  match s.seg with
  | .active _ e _ => supportedExpr e
  | .passive _ => true

theorem dataEntry_active0 (cfg : Cfg) {f : List UInt8} (hf : ULeb 32 0 f) (X : List UInt8) :
    dataEntry cfg (f ++ X) = activeDataTail cfg 0 X := by
  unfold dataEntry
  rw [bind_eq_of_ok (u32_uleb _ hf X)]
  have h0 : Reader.dataKinds.find? (fun r => r.1 = 0) = some (0, false, true, false) := by decide
  rw [h0]
  rfl

theorem dataEntry_active2 (cfg : Cfg) {f xb : List UInt8} {x : Nat} (hf : ULeb 32 2 f) (hx : ULeb 32 x xb) (X : List UInt8) :
    dataEntry cfg (f ++ (xb ++ X)) = activeDataTail cfg x X := by
  unfold dataEntry
  rw [bind_eq_of_ok (u32_uleb _ hf (xb ++ X))]
  have h2 : Reader.dataKinds.find? (fun r => r.1 = 2) = some (2, true, true, false) := by decide
  rw [h2]
  show (u32 E.invalidDataSectionMemoryIndex >>= _) (xb ++ X) = _
  rw [bind_eq_of_ok (u32_uleb _ hx X)]
  rfl

theorem dataEntry_passive (cfg : Cfg) {f : List UInt8} (hf : ULeb 32 1 f) (X : List UInt8) :
    dataEntry cfg (f ++ X) =
      (bytesVec E.invalidDataSectionBytes >>= fun bs =>
        (pure { memoryIndex := 0, offset := [], bytes := bs, passive := true } : P DataSegment)) X := by
  unfold dataEntry
  rw [bind_eq_of_ok (u32_uleb _ hf X)]
  have h1 : Reader.dataKinds.find? (fun r => r.1 = 1) = some (1, false, false, true) := by decide
  rw [h1]
  rfl

theorem activeDataTail_enc (cfg : Cfg) (mi : Nat) {e : List CInstr} {ob bs v : List UInt8} (he : EncExpr e ob)
    (hs : supportedExpr e = true) (hv : EncName bs v) (rest : Bytes) :
    activeDataTail cfg mi (ob ++ (v ++ rest)) =
      .ok ({ memoryIndex := mi, offset := ob, bytes := bs, passive := false }, rest) := by
  unfold activeDataTail
  rw [bind_eq_of_ok (slicedConstExpr_enc cfg _ he hs _), bind_eq_of_ok (bytesVec_enc _ hv rest)]
  rfl

theorem dataEntry_enc_at (cfg : Cfg) (flag : Nat) (seg : DataSeg) (ob b rest : List UInt8) (h : EncData flag seg ob b)
    (hs : supportedData ⟨seg, flag, ob⟩ = true) : dataEntry cfg (b ++ rest) = .ok (absData ⟨seg, flag, ob⟩, rest) := by
  cases h with
  | @f0 e bs f _ v hf he hv =>
    rw [List.append_assoc, List.append_assoc, dataEntry_active0 cfg hf, activeDataTail_enc cfg 0 he hs hv rest]
    rfl
  | @f1 bs f v hf hv =>
    rw [List.append_assoc, dataEntry_passive cfg hf, bind_eq_of_ok (bytesVec_enc _ hv rest)]
    rfl
  | @f2 x e bs f xb _ v hf hx he hv =>
    rw [List.append_assoc, List.append_assoc, List.append_assoc, dataEntry_active2 cfg hf hx,
      activeDataTail_enc cfg x he hs hv rest]
    rfl

/-- data section: the three forms (0: active in memory 0; 1: passive; 2: active with explicit memory index), flag,
    memory index and lengths in any padding; offset expression and data bytes kept verbatim. -/
theorem dataSection_roundtrip (cfg : Cfg) (m : RawModule) (ds : List DataLoc) (payload rest : List UInt8)
    (h : EncVector (fun (s : DataLoc) b => EncData s.flag s.seg s.expr b) ds payload) (hs : ds.all supportedData = true) :
    dataSection cfg m (payload ++ rest) = .ok ({ m with datas := ds.map absData }, rest) := by
  cases h with
  | @mk c body hc hb =>
    unfold dataSection
    rw [List.append_assoc, bind_eq_of_ok (u32_uleb _ hc _)]
    have hentry : ∀ s ∈ ds, ∀ (b rest : List UInt8), EncData s.flag s.seg s.expr b →
        dataEntry cfg (b ++ rest) = .ok (absData s, rest) := fun s hsm b rest hE =>
      dataEntry_enc_at cfg s.flag s.seg s.expr b rest hE (List.all_eq_true.1 hs s hsm)
    rw [bind_eq_of_ok (vec_enc_mem hb hentry rest)]
    rfl

/-- **data_flag0_eq_flag2**: an active data segment for memory 0 written in form 0 and the same segment (same
    offset-expression bytes, same data) written in form 2 with an explicit memory index 0 — flag, index and length
    fields padded independently and arbitrarily — are decoded to the SAME `WasmDataSegment`, and a data section of
    either decodes to the same module. -/
theorem data_flag0_eq_flag2 (cfg : Cfg) (m : RawModule) (e : List CInstr) (bs ob b0 b2 : List UInt8)
    (hs : supportedExpr e = true) (h0 : EncData 0 (.active 0 e bs) ob b0) (h2 : EncData 2 (.active 0 e bs) ob b2)
    (rest0 rest2 : List UInt8) :
    dataEntry cfg (b0 ++ rest0) = .ok ({ memoryIndex := 0, offset := ob, bytes := bs, passive := false }, rest0) ∧
    dataEntry cfg (b2 ++ rest2) = .ok ({ memoryIndex := 0, offset := ob, bytes := bs, passive := false }, rest2) ∧
    (∀ c0 c2 : List UInt8, ULeb 32 1 c0 → ULeb 32 1 c2 → ∀ r0 r2,
      (dataSection cfg m ((c0 ++ b0) ++ r0)).map Prod.fst = (dataSection cfg m ((c2 ++ b2) ++ r2)).map Prod.fst) := by
  have e0 := dataEntry_enc_at cfg 0 _ ob b0 rest0 h0 hs
  have e2 := dataEntry_enc_at cfg 2 _ ob b2 rest2 h2 hs
  refine ⟨e0, e2, fun c0 c2 hc0 hc2 r0 r2 => ?_⟩
  have v0 : EncVector (fun (s : DataLoc) b => EncData s.flag s.seg s.expr b) [⟨.active 0 e bs, 0, ob⟩] (c0 ++ (b0 ++ [])) :=
    EncVector.mk (as := [_]) hc0 (EncSeq.cons h0 EncSeq.nil)
  have v2 : EncVector (fun (s : DataLoc) b => EncData s.flag s.seg s.expr b) [⟨.active 0 e bs, 2, ob⟩] (c2 ++ (b2 ++ [])) :=
    EncVector.mk (as := [_]) hc2 (EncSeq.cons h2 EncSeq.nil)
  rw [List.append_nil] at v0 v2
  rw [dataSection_roundtrip cfg m _ _ r0 v0 (by simpa [supportedData] using hs),
    dataSection_roundtrip cfg m _ _ r2 v2 (by simpa [supportedData] using hs)]
  rfl

/-! ### code section -/

def absLocals (l : Locals) : LocalsDecl := { count := l.count, valueType := absVT l.ty }

/-- the bytes of one code entry -/
def entryLength (c : CodeLoc) : Nat := c.size.length + (c.locals.length + c.code.body.length)

/-- what the code loop stores into `functions.functions[i]` for an entry that begins `off` bytes after the start of
    the section payload: decoded local groups, the instruction bytes verbatim, their offset from the start of the
    payload, and the byte range handed to SHA-1 (locals and instructions, without the size field) -/
def absCode (off : Nat) (f : Function) (c : CodeLoc) : Function :=
  { f with locals := c.code.locals.map absLocals, code := c.code.body,
           start := off + (c.size.length + c.locals.length), hashed := some (c.locals ++ c.code.body) }

def absCodes : Nat → List Function → List CodeLoc → List Function
  | off, f :: fs, c :: cs => absCode off f c :: absCodes (off + entryLength c) fs cs
  | _, _, _ => []

/-- The padding of the size field, of the group count and of the local counts reaches only `start` and `hashed`
    (positions and the SHA-1 input); type, locals, instruction bytes and export name do not depend on it. -/
theorem absCode_fields (off : Nat) (f : Function) (c : CodeLoc) :
    (absCode off f c).typeIndex = f.typeIndex ∧ (absCode off f c).exportName = f.exportName ∧
    (absCode off f c).locals = c.code.locals.map absLocals ∧ (absCode off f c).code = c.code.body :=
  ⟨rfl, rfl, rfl, rfl⟩

theorem localsDecl_enc (l : Locals) (b rest : List UInt8) (h : EncLocals l b) :
    localsDecl (b ++ rest) = .ok (absLocals l, rest) := by
  cases h with
  | @mk c hc =>
    unfold localsDecl
    rw [List.append_assoc, bind_eq_of_ok (u32_uleb _ hc _), bind_eq_of_ok (valueType_enc _ l.ty _ rest rfl)]
    rfl

theorem localsDecls_enc {ls : List Locals} {lb : List UInt8} (h : EncVector EncLocals ls lb) (rest : Bytes) :
    localsDecls (lb ++ rest) = .ok (ls.map absLocals, rest) := by
  cases h with
  | @mk c body hc hb =>
    unfold localsDecls
    rw [List.append_assoc, bind_eq_of_ok (u32_uleb _ hc _)]
    exact vec_enc (fun a b rest h => localsDecl_enc a b rest h) hb rest

theorem codeEntry_enc (L cs0 off : Nat) (f : Function) (c : Code) (sz lb b rest : List UInt8) (h : EncCode c sz lb b)
    (hL : (b ++ rest).length ≤ L) (hoff : L - (b ++ rest).length = cs0 + off) :
    codeEntry L cs0 f (b ++ rest) = .ok (absCode off f ⟨c, sz, lb⟩, rest) := by
  cases h with
  | mk hl hs =>
    rw [codeEntry_run, List.append_assoc, u32_uleb _ hs _]
    dsimp only
    have hb1 : (lb ++ c.body ++ rest).length = lb.length + c.body.length + rest.length := by
      simp only [List.length_append]
    rw [if_neg (by rw [hb1, List.length_append]; omega), List.append_assoc, localsDecls_enc hl _]
    dsimp only
    have hcons : (lb ++ (c.body ++ rest)).length - (c.body ++ rest).length = lb.length := by
      simp only [List.length_append]; omega
    have hk : (lb ++ c.body).length - lb.length = c.body.length := by simp only [List.length_append]; omega
    rw [hcons, if_neg (by rw [List.length_append]; omega), hk, List.take_left' rfl, List.drop_left' rfl]
    have hhash : (lb ++ (c.body ++ rest)).take (lb ++ c.body).length = lb ++ c.body := by
      rw [← List.append_assoc]; exact List.take_left' rfl
    have hstart : L - (c.body ++ rest).length - cs0 = off + (sz.length + lb.length) := by
      simp only [List.length_append] at hL hoff ⊢; omega
    rw [hhash, hstart]
    rfl

theorem codeEntries_enc (L cs0 : Nat) : ∀ {cs : List CodeLoc} {body : List UInt8},
    EncSeq (fun (c : CodeLoc) b => EncCode c.code c.size c.locals b) cs body →
    ∀ (fs : List Function) (off : Nat) (rest : Bytes), fs.length = cs.length → (body ++ rest).length ≤ L →
      L - (body ++ rest).length = cs0 + off →
      codeEntries L cs0 fs (body ++ rest) = .ok (absCodes off fs cs, rest) := by
  intro cs body h
  induction h with
  | nil =>
    intro fs off rest hlen _ _
    have : fs = [] := List.eq_nil_of_length_eq_zero (by simpa using hlen)
    subst this; rfl
  | @cons c cs b bs hc _ ih =>
    intro fs off rest hlen hL hoff
    cases fs with
    | nil => simp at hlen
    | cons f fs =>
      have hdef : ∀ (xs : Bytes), codeEntries L cs0 (f :: fs) xs =
          (codeEntry L cs0 f >>= fun f' => codeEntries L cs0 fs >>= fun fs' => pure (f' :: fs')) xs := fun _ => rfl
      have hblen : b.length = entryLength c := by
        cases hc with
        | mk hl hs => simp only [entryLength, List.length_append]
      rw [List.append_assoc] at hL hoff ⊢
      have hL2 : (b ++ (bs ++ rest)).length = b.length + (bs ++ rest).length := List.length_append
      rw [hdef, bind_eq_of_ok (codeEntry_enc L cs0 off f c.code c.size c.locals b (bs ++ rest) hc hL hoff),
        bind_eq_of_ok (ih fs (off + entryLength c) rest (by simpa using hlen) (by omega) (by omega))]
      rfl

theorem encSeq_code_length {cs : List CodeLoc} {body : List UInt8}
    (h : EncSeq (fun (c : CodeLoc) b => EncCode c.code c.size c.locals b) cs body) :
    body.length = (cs.map entryLength).sum := by
  induction h with
  | nil => rfl
  | @cons c cs b bs hc _ ih =>
    have hblen : b.length = entryLength c := by
      cases hc with
      | mk hl hs => simp only [entryLength, List.length_append]
    rw [List.length_append, List.map_cons, List.sum_cons, ih, hblen]

/-- code section: one entry per function declared by the function section (another count is rejected with
    `InvalidCodeSectionFunctionCount`), the body size in any padding, groups of locals including zero-count groups
    and padded counts, the instruction bytes kept verbatim.  `(payload ++ rest).length ≤ m.length` says that the
    buffer is a suffix of the file (`m.length` = file length), which the module loop maintains; `Function.start` is
    then the offset of the instruction bytes from the start of the section payload. -/
theorem codeSection_roundtrip (m : RawModule) (cs : List CodeLoc) (payload rest : List UInt8)
    (h : EncVector (fun (c : CodeLoc) b => EncCode c.code c.size c.locals b) cs payload)
    (hcount : cs.length = m.functions.length) (hL : (payload ++ rest).length ≤ m.length) :
    codeSection m (payload ++ rest) =
      .ok ({ m with functions := absCodes (payload.length - (cs.map entryLength).sum) m.functions cs }, rest) := by
  cases h with
  | @mk c body hc hb =>
    have hsum := encSeq_code_length hb
    have hoff : (c ++ body).length - (cs.map entryLength).sum = c.length := by
      rw [List.length_append, ← hsum]; omega
    rw [hoff, codeSection_run, List.append_assoc, u32_uleb _ hc _]
    dsimp only
    rw [if_neg (by omega)]
    have hlen : (c ++ (body ++ rest)).length = c.length + (body ++ rest).length := List.length_append
    rw [List.append_assoc] at hL
    rw [codeEntries_enc m.length (m.length - (c ++ (body ++ rest)).length) hb m.functions c.length rest hcount.symm
      (by omega) (by omega)]

/-- the same, with the count field named: the first entry begins right after it -/
theorem codeSection_roundtrip_counted (m : RawModule) (cs : List CodeLoc) (cnt body rest : List UInt8)
    (hc : ULeb 32 cs.length cnt) (hb : EncSeq (fun (c : CodeLoc) b => EncCode c.code c.size c.locals b) cs body)
    (hcount : cs.length = m.functions.length) (hL : ((cnt ++ body) ++ rest).length ≤ m.length) :
    codeSection m ((cnt ++ body) ++ rest) = .ok ({ m with functions := absCodes cnt.length m.functions cs }, rest) := by
  rw [codeSection_roundtrip m cs (cnt ++ body) rest (EncVector.mk hc hb) hcount hL]
  have hsum := encSeq_code_length hb
  have hoff : (cnt ++ body).length - (cs.map entryLength).sum = cnt.length := by
    rw [List.length_append, ← hsum]; omega
  rw [hoff]

/-! ### custom sections -/

/-- what `wasmReadCustomSection` does with a section it does not interpret: nothing, except that sections whose
    name (as a C string) starts with `.debug_` are recorded (name, length of the content) for the DWARF reader -/
def absCustom (m : RawModule) (nm content : List UInt8) : RawModule :=
  if (strBytes Reader.debugSectionNamePrefix).isPrefixOf (cstr nm) = true then
    { m with debugSections := m.debugSections ++ [{ name := cstr nm, length := content.length, present := content.length }] }
  else m

/-- Custom sections are skipped by their payload size, except the name section under `-g`. -/
def customSkipped (cfg : Cfg) (nm : List UInt8) : Bool :=
  !(cfg.debug && decide (cstr nm = strBytes Reader.nameSectionName))

theorem customSection_roundtrip (cfg : Cfg) (m : RawModule) (nm content payload rest : List UInt8)
    (h : EncPayload (.custom nm content) payload) (hlt : payload.length < u32Max) (hno : customSkipped cfg nm = true) :
    customSection cfg payload.length m (payload ++ rest) = .ok (absCustom m nm content, rest) := by
  cases h with
  | @custom _ _ a hn =>
    cases hn with
    | @mk nsz hn =>
      have hno' : ¬ (cfg.debug = true ∧ isNameSection (cstr nm) = true) := by
        intro hc
        have h2 := (isNameSection_iff _).1 hc.2
        simp [customSkipped, hc.1, h2] at hno
      have hassoc : ((nsz ++ nm) ++ content) ++ rest = nsz ++ (nm ++ (content ++ rest)) := by simp [List.append_assoc]
      rw [hassoc]
      have hsize : (((nsz ++ nm) ++ content).length + u32Max -
          ((nsz ++ (nm ++ (content ++ rest))).length - (content ++ rest).length) % u32Max) % u32Max = content.length := by
        simp only [List.length_append, u32Max] at hlt ⊢
        omega
      have hdrop : (content ++ rest).drop content.length = rest := List.drop_left' rfl
      unfold customSection
      rw [remaining_bind, bind_eq_of_ok (name_enc _ hn (content ++ rest)), remaining_bind, hsize, ite_run]
      by_cases hp : (strBytes Reader.debugSectionNamePrefix).isPrefixOf (cstr nm) = true
      · rw [if_pos hp, remaining_bind, bind_eq_of_ok (skip_run _ _), pure_run, hdrop]
        have hmin : min content.length (content ++ rest).length = content.length := by
          rw [List.length_append]; omega
        rw [hmin]
        simp only [absCustom, if_pos hp]
      · rw [if_neg hp, ite_run, if_neg hno', bind_eq_of_ok (skip_run _ _), pure_run, hdrop]
        simp only [absCustom, if_neg hp]

/-- **custom_section_other_name_ignored**: a custom section whose name (as the C string the reader compares) is not
    EXACTLY `name` and does not start with `.debug_` — `nam`, `names`, `namespace`, `name.idx`, `.debug`, the empty name, … —
    leaves the decoded module untouched, with or without `-g`, whatever its content; one that starts with `.debug_` only adds
    an entry to the list of debug sections.  (The comparison mode — `strcmp`, not `strncmp` — is regenerated from
    reader.c: `isNameSection_iff`.) -/
theorem custom_section_other_name_ignored (cfg : Cfg) (m : RawModule) (nm content payload rest : List UInt8)
    (h : EncPayload (.custom nm content) payload) (hlt : payload.length < u32Max)
    (hname : cstr nm ≠ strBytes Reader.nameSectionName) :
    customSection cfg payload.length m (payload ++ rest) = .ok (absCustom m nm content, rest) ∧
    (¬ ((strBytes Reader.debugSectionNamePrefix).isPrefixOf (cstr nm) = true) → absCustom m nm content = m) ∧
    { absCustom m nm content with debugSections := m.debugSections } = m := by
  refine ⟨customSection_roundtrip cfg m nm content payload rest h hlt (by simp [customSkipped, hname]), fun hp => ?_, ?_⟩
  · simp only [absCustom, if_neg hp]
  · unfold absCustom; split <;> rfl

/-! ### the name section under `-g`

With `-g` the custom section called `name` is parsed: the function-names subsection (id 1) fills
`module->functionNames` — one slot per function KNOWN AT THAT POINT of the file (a name section may precede the
function section) —, every other subsection is skipped by its size.  A name for a function index outside that range
is read and ignored; names given to more than one function are cleared afterwards
(`wasmFunctionNamesRemoveDuplicates`).  A later name section finds the table of the earlier one: its entries are kept,
the slots added for functions that became known in between start out empty.  The two source shapes this relies on are
regenerated (`Gen.Reader.nameIndexOutOfRange`, `nameTableGrowthZeroed`): no hypothesis is left — a name section never
makes a module fail. -/

/-- `names[functionIndex] = functionName` (as a C string) for a known function; otherwise nothing -/
def setFuncName (fc : Nat) (names : List (Option Bytes)) (a : Nat × List UInt8) : List (Option Bytes) :=
  if fc ≤ a.1 then names else names.set a.1 (some (cstr a.2))

/-- `wasmFunctionNamesRemoveDuplicates` on the first `len` entries: a name that occurs more than once is cleared
    everywhere -/
def dedupNames (names : List (Option Bytes)) (len : Nat) : List (Option Bytes) :=
  if len < 2 then names
  else ((names.take len).map fun n =>
          if n.isSome ∧ ((names.take len).filter (· = n)).length > 1 then none else n) ++ names.drop len

def funcCount (m : RawModule) : Nat := (m.funcImports.length + m.functions.length) % u32Max

/-- the name table a function-names subsection starts from: the entries there are, extended by empty slots up to the
    number of functions known now -/
def namesBefore (m : RawModule) : List (Option Bytes) :=
  m.funcNames ++ List.replicate (funcCount m - m.funcNames.length) none

/-- what a name subsection leaves in the module -/
def absNameSub (m : RawModule) : NameSub → RawModule
  | .funcNames as =>
    { m with funcNames := dedupNames (as.foldl (setFuncName (funcCount m)) (namesBefore m)) (funcCount m),
             funcNamesLen := funcCount m }
  | .other _ _ => m

theorem removeDuplicates_eq (names : List (Option Bytes)) (len : Nat) :
    removeDuplicates names len = .ok (dedupNames names len) := by
  unfold removeDuplicates dedupNames
  have hg : Reader.functionNamesNullGuard = true := rfl
  by_cases h : len < 2
  · simp [h]
  · simp [h, hg]

/-- the regenerated shape: the range test comes after the name is read and skips the entry -/
theorem nameIndexRule_current : Reader.nameIndexOutOfRange = "skip-after-name" := rfl

/-- the regenerated shape: the slots added by growing the table are zeroed -/
theorem nameTableGrowth_current : Reader.nameTableGrowthZeroed = true := rfl

theorem grownNames_eq (m : RawModule) : grownNames m (funcCount m) = some (namesBefore m) := by
  unfold grownNames namesBefore
  rw [nameTableGrowth_current]
  by_cases h : m.funcNames.length < funcCount m
  · rw [if_pos h]; rfl
  · rw [if_neg h]
    have : funcCount m - m.funcNames.length = 0 := by omega
    rw [this]; simp

theorem namesBefore_length (m : RawModule) : funcCount m ≤ (namesBefore m).length := by
  unfold namesBefore; simp; omega

theorem funcNameEntry_enc (fc : Nat) (names : List (Option Bytes)) (hlen : fc ≤ names.length) (a : Nat × List UInt8)
    (b rest : List UInt8) (h : EncNameAssoc a b) :
    funcNameEntry fc names (b ++ rest) = .ok (setFuncName fc names a, rest) := by
  cases h with
  | @mk ib nb hi hn =>
    unfold funcNameEntry
    rw [if_pos nameIndexRule_current]
    unfold funcNameEntrySkip
    rw [List.append_assoc, bind_eq_of_ok (u32_uleb _ hi _), bind_eq_of_ok (name_encName _ hn rest), ite_run]
    by_cases hr : fc ≤ a.1
    · rw [if_pos hr]; simp only [setFuncName, if_pos hr]; rfl
    · rw [if_neg hr]
      unfold storeFuncName
      rw [ite_run, if_pos (by omega)]
      simp only [setFuncName, if_neg hr]; rfl

theorem setFuncName_length (fc : Nat) (names : List (Option Bytes)) (a : Nat × List UInt8) :
    (setFuncName fc names a).length = names.length := by
  unfold setFuncName; split <;> simp

theorem functionNamesSubsection_enc (m : RawModule) (as : List (Nat × List UInt8)) (p rest : List UInt8)
    (h : EncVector EncNameAssoc as p) :
    functionNamesSubsection m (p ++ rest) = .ok (absNameSub m (.funcNames as), rest) := by
  cases h with
  | @mk c body hc hb =>
    unfold functionNamesSubsection
    rw [List.append_assoc, bind_eq_of_ok (u32_uleb _ hc _)]
    have hfc : (m.funcImports.length + m.functions.length) % u32Max = funcCount m := rfl
    rw [hfc, grownNames_eq]
    dsimp only
    have hiter := iter_enc (f := funcNameEntry (funcCount m)) (g := setFuncName (funcCount m))
      (fun names => funcCount m ≤ names.length) hb
      (fun s hs a _ b rest hE => ⟨funcNameEntry_enc _ s hs a b rest hE, by rw [setFuncName_length]; exact hs⟩)
      (namesBefore m) (namesBefore_length m) rest
    rw [bind_eq_of_ok hiter, removeDuplicates_eq]
    rfl

/-- On ANY input (not only grammar encodings) the function-names subsection performs no undefined operation: growing a
    name table that an earlier name section filled does not leave uninitialised entries behind (`nameTableGrowthZeroed`). -/
theorem functionNamesSubsection_defined (m : RawModule) (bs : Bytes) (u : UB) : functionNamesSubsection m bs ≠ .ub u := by
  intro h
  have hub : UBOnly (fun _ => False) (functionNamesSubsection m) := by
    unfold functionNamesSubsection
    refine ub_bind (ub_u32 _) fun n => ?_
    have hfc : (m.funcImports.length + m.functions.length) % u32Max = funcCount m := rfl
    rw [hfc, grownNames_eq]
    dsimp only
    refine ub_bind ?_ fun names => ?_
    · exact ub_iter (I := fun ns : List (Option Bytes) => ns.length = (namesBefore m).length)
        (fun s hs => funcNameEntry_inv _ _ s hs)
        (fun s hs => funcNameEntry_ub _ s (by rw [hs]; exact namesBefore_length m)) n _ rfl
    · rw [removeDuplicates_eq]
      exact ub_pure _
  exact hub bs u h

theorem name_err (e : Nat) (bs : Bytes) (c : Nat) (h : name e bs = .err c) : c = e := by
  unfold name at h
  have h' : P.bind (u32 e) (fun length => takeExact cstr e length) bs = .err c := h
  unfold P.bind at h'
  split at h'
  · rename_i len mid _
    have h'' : (if mid.length < len then Res.err e else Res.ok (cstr (mid.take len), mid.drop len)) = Res.err c := h'
    split at h''
    · cases h''; rfl
    · cases h''
  · rename_i c' hu
    cases h'
    rw [u32_run] at hu
    split at hu
    · cases hu; rfl
    · cases hu
  · cases h'

/-- A function index that can be decoded never makes a name entry fail with `InvalidNameSectionFunctionIndex`, whatever its
    value: an index outside the function index space known so far is not an error (`nameIndexOutOfRange = skip-after-name`). -/
theorem name_index_never_a_range_error (fc : Nat) (names : List (Option Bytes)) (bs r : Bytes) (idx : Nat)
    (hidx : u32 E.invalidNameSectionFunctionIndex bs = .ok (idx, r)) :
    funcNameEntry fc names bs ≠ .err E.invalidNameSectionFunctionIndex := by
  unfold funcNameEntry
  rw [if_pos nameIndexRule_current]
  unfold funcNameEntrySkip
  rw [bind_eq_of_ok hidx]
  intro h
  cases hn : name E.invalidNameSectionFunctionName r with
  | ok x =>
    obtain ⟨nm, r2⟩ := x
    rw [bind_eq_of_ok hn, ite_run] at h
    split at h
    · cases h
    · unfold storeFuncName at h
      rw [ite_run] at h
      split at h <;> cases h
  | err c =>
    have hc := name_err _ _ _ hn
    have hb : (name E.invalidNameSectionFunctionName >>= fun nm =>
        if fc ≤ idx then (pure names : P (List (Option Bytes))) else storeFuncName names idx nm) r = .err c := by
      show P.bind _ _ r = _
      unfold P.bind; rw [hn]
    rw [hb] at h
    cases h
    exact absurd hc (by decide)
  | ub u =>
    have hb : (name E.invalidNameSectionFunctionName >>= fun nm =>
        if fc ≤ idx then (pure names : P (List (Option Bytes))) else storeFuncName names idx nm) r = .ub u := by
      show P.bind _ _ r = _
      unfold P.bind; rw [hn]
    rw [hb] at h
    cases h

theorem nameSectionLoop_succ (endRem : Int) (fuel : Nat) (m : RawModule) (bs : Bytes) :
    nameSectionLoop endRem (fuel + 1) m bs =
      if (bs.length : Int) ≤ endRem then .ok (m, bs)
      else (byte E.invalidGlobalSectionMutabilityIndicator >>= fun id => u32 E.invalidSectionSize >>= fun size =>
              (if id.toNat = Reader.nameSubsectionFunctionNames then functionNamesSubsection m
               else (skip size >>= fun _ => pure m)) >>= fun m' => nameSectionLoop endRem fuel m') bs := rfl

theorem encNameSub_ne_nil {s : NameSub} {b : List UInt8} (h : EncNameSub s b) : b ≠ [] := by
  cases h <;> simp

theorem encNameSubs_length {subs : List NameSub} {body : List UInt8} (h : EncSeq EncNameSub subs body) :
    subs.length ≤ body.length := by
  induction h with
  | nil => simp
  | @cons s ss b bs hs _ ih =>
    have : 0 < b.length := List.length_pos_iff.2 (encNameSub_ne_nil hs)
    simp only [List.length_cons, List.length_append]; omega

theorem nameSectionLoop_enc : ∀ {subs : List NameSub} {body : List UInt8}, EncSeq EncNameSub subs body →
    ∀ (fuel : Nat) (m : RawModule) (rest : Bytes), subs.length ≤ fuel →
      nameSectionLoop (rest.length : Int) fuel m (body ++ rest) = .ok (subs.foldl absNameSub m, rest) := by
  intro subs body h
  induction h with
  | nil =>
    intro fuel m rest _
    cases fuel with
    | zero => rfl
    | succ f => rw [nameSectionLoop_succ, if_pos (by simp)]; rfl
  | @cons s ss b bs hs _ ih =>
    intro fuel m rest hf
    cases fuel with
    | zero => simp at hf
    | succ f =>
      have hpos : 0 < b.length := List.length_pos_iff.2 (encNameSub_ne_nil hs)
      rw [nameSectionLoop_succ, if_neg (by simp only [List.length_append]; omega), List.append_assoc]
      have hrec := ih f (absNameSub m s) rest (by simpa using hf)
      cases hs with
      | @funcNames as p sz hp hsz =>
        rw [List.cons_append, bind_eq_of_ok (byte_cons _ _ _), List.append_assoc, bind_eq_of_ok (u32_uleb _ hsz _),
          if_pos (by decide), bind_eq_of_ok (functionNamesSubsection_enc m as p _ hp)]
        exact hrec
      | @other id content sz hid hsz =>
        have hne : ¬ (id.toNat = Reader.nameSubsectionFunctionNames) := by
          intro hc
          exact hid (UInt8.toNat_inj.1 (hc.trans (by decide)))
        rw [List.cons_append, bind_eq_of_ok (byte_cons _ _ _), List.append_assoc, bind_eq_of_ok (u32_uleb _ hsz _),
          if_neg hne]
        have hskip : (skip content.length >>= fun _ => (pure m : P RawModule)) (content ++ (bs ++ rest)) = .ok (m, bs ++ rest) := by
          rw [bind_eq_of_ok (skip_run _ _), List.drop_left' rfl]; rfl
        rw [bind_eq_of_ok hskip]
        exact hrec

/-- **nameSection_roundtrip**: under `-g`, the custom section `name` — its size-delimited subsections in any order
    and number, sizes, counts, indices and name lengths in any padding — is consumed exactly; the function names are
    stored (C strings; names of functions not known at this point of the file ignored; duplicates cleared), every other
    subsection is skipped.  No hypothesis on the module or on the indices: a name section at any position, any number of
    name sections, never make a module fail. -/
theorem nameSection_roundtrip (cfg : Cfg) (hg : cfg.debug = true) (m : RawModule) (subs : List NameSub)
    (payload rest : List UInt8) (h : EncPayload (.names subs) payload) (hlt : payload.length < u32Max) :
    customSection cfg payload.length m (payload ++ rest) = .ok (subs.foldl absNameSub m, rest) := by
  cases h with
  | @names _ a body hn hb =>
    cases hn with
    | @mk nsz hn =>
      have hassoc : ((nsz ++ nameSectionNameBytes) ++ body) ++ rest = nsz ++ (nameSectionNameBytes ++ (body ++ rest)) := by
        simp [List.append_assoc]
      rw [hassoc]
      have hsize : (((nsz ++ nameSectionNameBytes) ++ body).length + u32Max -
          ((nsz ++ (nameSectionNameBytes ++ (body ++ rest))).length - (body ++ rest).length) % u32Max) % u32Max = body.length := by
        simp only [List.length_append, u32Max] at hlt ⊢
        omega
      have hcstr : cstr nameSectionNameBytes = strBytes Reader.nameSectionName := by decide
      have hpre : ¬ ((strBytes Reader.debugSectionNamePrefix).isPrefixOf (strBytes Reader.nameSectionName) = true) := by decide
      unfold customSection
      rw [remaining_bind, bind_eq_of_ok (name_enc _ hn (body ++ rest)), remaining_bind, hsize, hcstr, ite_run, if_neg hpre,
        ite_run, if_pos ⟨hg, (isNameSection_iff _).2 rfl⟩]
      show nameSectionLoop (((body ++ rest).length : Int) - (body.length : Nat)) ((body ++ rest).length + 1) m (body ++ rest) = _
      have hend : (((body ++ rest).length : Int) - (body.length : Nat)) = (rest.length : Int) := by
        rw [List.length_append]; omega
      rw [hend]
      exact nameSectionLoop_enc hb _ m rest (by have := encNameSubs_length hb; rw [List.length_append]; omega)

/-! ### all sections: `read_encode_roundtrip`

`accepts cfg m s` collects, per kind of section, what the reader demands beyond the grammar — each is either a
validity condition of the module (indices in range, one code entry per function) or a feature w2c2 does not support
(release-2.0 constant instructions, element segments not in form 0), or excludes the one custom section that is
interpreted (the name section under `-g`).  It is a `Bool`: decidable for every concrete module. -/

def accepts (cfg : Cfg) (m : RawModule) : Sec → Bool
  | .custom nm _ => customSkipped cfg nm
  | .function xs => xs.all fun i => decide (i < m.types.length)
  | .global gs => supportedGlobals gs
  | .export es => es.all (exportValid m)
  | .element es => supportedElems es
  | .code _ cs => decide (cs.length = m.functions.length)
  | .data ds => ds.all supportedData
  | _ => true

/-- the decoded module after a section (`cfg`: the name section is interpreted under `-g` only) -/
def absSec (cfg : Cfg) (m : RawModule) : Sec → RawModule
  | .custom nm content => absCustom m nm content
  | .names subs => if cfg.debug then subs.foldl absNameSub m else m
  | .type tys => { m with types := tys.map absFuncTy }
  | .import is => is.foldl addImport m
  | .function xs => { m with functions := xs.map Function.empty }
  | .table ts => { m with tables := ts.map absTableLimits }
  | .memory ms => { m with memories := ms.map absMemLimits }
  | .global gs => { m with globals := gs.map absGlobal }
  | .export es => { m with functions := es.foldl (markExport m.funcImports.length) m.functions, exports := es.map absExport }
  | .start x => { m with start := some x }
  | .element es => { m with elems := es.filterMap absElem }
  | .code cnt cs => { m with functions := absCodes cnt.length m.functions cs }
  | .data ds => { m with datas := ds.map absData }
  | .dataCount _ => m

/-- every section reader, given a grammar payload of its section, consumes exactly the payload and produces the
    abstract content -/
theorem sectionReader_roundtrip (cfg : Cfg) (m : RawModule) (s : Sec) (p rest : List UInt8) (hp : EncPayload s p)
    (hlt : p.length < u32Max) (ha : accepts cfg m s = true) (hL : (p ++ rest).length ≤ m.length) :
    ∃ rd, Reader.sectionReaders[s.id.toNat]? = some rd ∧
      sectionReader cfg rd p.length m (p ++ rest) = .ok (absSec cfg m s, rest) := by
  cases hp with
  | custom h => exact ⟨_, rfl, customSection_roundtrip cfg m _ _ _ rest (.custom h) hlt ha⟩
  | @names subs a body hn hb =>
    refine ⟨_, rfl, ?_⟩
    show customSection cfg (a ++ body).length m ((a ++ body) ++ rest) = _
    cases hg : cfg.debug with
    | true =>
      rw [nameSection_roundtrip cfg hg m subs _ rest (.names hn hb) hlt]
      simp [absSec, hg]
    | false =>
      have hsk : customSkipped cfg nameSectionNameBytes = true := by simp [customSkipped, hg]
      rw [customSection_roundtrip cfg m nameSectionNameBytes body _ rest (.custom hn) hlt hsk]
      have hpre : ¬ ((strBytes Reader.debugSectionNamePrefix).isPrefixOf (cstr nameSectionNameBytes) = true) := by decide
      simp only [absSec, hg, absCustom, if_neg hpre]
      rfl
  | type h => exact ⟨_, rfl, typeSection_roundtrip m _ _ rest h⟩
  | «import» h => exact ⟨_, rfl, importSection_roundtrip m _ _ rest h⟩
  | function h =>
    exact ⟨_, rfl, functionSection_roundtrip m _ _ rest h fun i hi => by
      have := List.all_eq_true.1 ha i hi; simpa using this⟩
  | table h => exact ⟨_, rfl, tableSection_roundtrip m _ _ rest h⟩
  | memory h => exact ⟨_, rfl, memorySection_roundtrip m _ _ rest h⟩
  | global h => exact ⟨_, rfl, globalSection_roundtrip cfg m _ _ rest h ha⟩
  | «export» h => exact ⟨_, rfl, exportSection_roundtrip m _ _ rest h ha⟩
  | start h => exact ⟨_, rfl, startSection_roundtrip m _ _ rest h⟩
  | element h => exact ⟨_, rfl, elementSection_roundtrip cfg m _ _ rest h ha⟩
  | code hc hb => exact ⟨_, rfl, codeSection_roundtrip_counted m _ _ _ rest hc hb (by simpa [accepts] using ha) hL⟩
  | data h => exact ⟨_, rfl, dataSection_roundtrip cfg m _ _ rest h ha⟩
  | dataCount h => exact ⟨_, rfl, dataCountSection_roundtrip m _ _ rest h⟩

/-- **read_encode_roundtrip**: for EVERY kind of section (custom, type, import, function, table, memory, global,
    export, start, element, code, data, data count), every specification encoding of the section — id byte, size
    field in any padding, payload in any padding of every count / index / length / immediate — is accepted by
    `wasmModuleReadSection` (dispatch on the id, the section reader, the consumed-exactly check) and decoded to the
    section's abstract content, whatever follows it in the file. -/
theorem read_encode_roundtrip (cfg : Cfg) (m : RawModule) (s : Sec) (b rest : List UInt8) (h : EncSec s b)
    (ha : accepts cfg m s = true) (hL : (b ++ rest).length ≤ m.length) :
    readSection cfg m (b ++ rest) = .ok (absSec cfg m s, rest) := by
  cases h with
  | @mk p sz hp hs =>
    have hassoc : (s.id :: (sz ++ p)) ++ rest = s.id :: (sz ++ (p ++ rest)) := by simp [List.append_assoc]
    rw [hassoc] at hL ⊢
    have hlt : p.length < u32Max := hs.lt
    have hL' : (p ++ rest).length ≤ m.length := by
      simp only [List.length_cons, List.length_append] at hL ⊢; omega
    obtain ⟨rd, hrd, hsr⟩ := sectionReader_roundtrip cfg m s p rest hp hlt ha hL'
    rw [readSection_run cfg m s.id hs, hrd]
    dsimp only
    rw [hsr]
    dsimp only
    rw [if_neg (by rw [List.length_append]; omega)]

/-! ### whole modules: `module_roundtrip` -/

theorem foldl_addImport_length (is : List Imp) : ∀ m : RawModule, (is.foldl addImport m).length = m.length := by
  induction is with
  | nil => intro m; rfl
  | cons i is ih =>
    intro m
    rw [List.foldl_cons, ih]
    unfold addImport
    split <;> rfl

theorem absNameSub_length (m : RawModule) (s : NameSub) : (absNameSub m s).length = m.length := by
  cases s <;> rfl

theorem foldl_absNameSub_length (subs : List NameSub) : ∀ m : RawModule, (subs.foldl absNameSub m).length = m.length := by
  induction subs with
  | nil => intro m; rfl
  | cons s ss ih => intro m; rw [List.foldl_cons, ih, absNameSub_length]

theorem absSec_length (cfg : Cfg) (m : RawModule) (s : Sec) : (absSec cfg m s).length = m.length := by
  cases s with
  | custom nm content =>
    show (absCustom m nm content).length = _
    unfold absCustom; split <;> rfl
  | names subs =>
    show (if cfg.debug = true then subs.foldl absNameSub m else m).length = _
    split
    · exact foldl_absNameSub_length subs m
    · rfl
  | «import» is => exact foldl_addImport_length is m
  | _ => rfl

theorem encSec_ne_nil {s : Sec} {b : List UInt8} (h : EncSec s b) : b ≠ [] := by
  cases h; simp

/-- `accepts` along a sequence of sections, each judged in the module decoded so far -/
def acceptsAll (cfg : Cfg) : RawModule → List Sec → Bool
  | _, [] => true
  | m, s :: ss => accepts cfg m s && acceptsAll cfg (absSec cfg m s) ss

/-- the decoded module after a sequence of sections -/
def absSecs (cfg : Cfg) (m : RawModule) (ss : List Sec) : RawModule := ss.foldl (absSec cfg) m

theorem sections_roundtrip (cfg : Cfg) : ∀ {ss : List Sec} {bs : List UInt8}, EncSecs ss bs →
    ∀ m : RawModule, acceptsAll cfg m ss = true → bs.length ≤ m.length →
      readSections cfg bs m = .ok (absSecs cfg m ss) := by
  intro ss bs h
  induction h with
  | nil => intro m _ _; rw [readSections_nil]; rfl
  | @cons s ss b bs hs _ ih =>
    intro m ha hL
    simp only [acceptsAll, Bool.and_eq_true] at ha
    have hne : b ++ bs ≠ [] := fun hc => encSec_ne_nil hs (List.append_eq_nil_iff.1 hc).1
    rw [readSections_cons cfg _ _ hne, read_encode_roundtrip cfg m s b bs hs ha.1 hL]
    dsimp only
    refine ih (absSec cfg m s) ha.2 ?_
    rw [absSec_length]; rw [List.length_append] at hL; omega

/-- **module_roundtrip**: a file consisting of magic, version and any sequence of section encodings — custom
    sections anywhere, every size, count, index, length and immediate in any padding, data segments in any of the
    three forms, the name section (parsed under `-g`, skipped otherwise) — whose sections the reader supports
    (`acceptsAll`) is accepted by `wasmModuleRead`, and the decoded module is the fold of the sections' abstract
    contents over the empty module. -/
theorem module_roundtrip (cfg : Cfg) (ss : List Sec) (bs : List UInt8) (h : EncSecs ss bs)
    (ha : acceptsAll cfg (RawModule.empty (Reader.magic ++ bs).length) ss = true) :
    Model.Reader.read cfg (Reader.magic ++ bs) = .ok (absSecs cfg (RawModule.empty (Reader.magic ++ bs).length) ss) := by
  rw [read_magic]
  refine sections_roundtrip cfg h _ ha ?_
  show bs.length ≤ (Reader.magic ++ bs).length
  rw [List.length_append]; omega

/-! Two encodings of the same sections differ in nothing the located grammar objects do not record (size fields,
    counts, indices, lengths, name lengths, flags): the decoded modules are equal up to the file length. -/

theorem addImport_setLength (m : RawModule) (L : Nat) (i : Imp) :
    addImport { m with length := L } i = { addImport m i with length := L } := by
  unfold addImport; split <;> rfl

theorem foldl_addImport_setLength (L : Nat) (is : List Imp) : ∀ m : RawModule,
    is.foldl addImport { m with length := L } = { is.foldl addImport m with length := L } := by
  induction is with
  | nil => intro m; rfl
  | cons i is ih => intro m; rw [List.foldl_cons, List.foldl_cons, addImport_setLength, ih]

theorem absNameSub_setLength (m : RawModule) (L : Nat) (s : NameSub) :
    absNameSub { m with length := L } s = { absNameSub m s with length := L } := by
  cases s <;> rfl

theorem foldl_absNameSub_setLength (L : Nat) (subs : List NameSub) : ∀ m : RawModule,
    subs.foldl absNameSub { m with length := L } = { subs.foldl absNameSub m with length := L } := by
  induction subs with
  | nil => intro m; rfl
  | cons s ss ih => intro m; rw [List.foldl_cons, List.foldl_cons, absNameSub_setLength, ih]

theorem absSec_setLength (cfg : Cfg) (m : RawModule) (L : Nat) (s : Sec) :
    absSec cfg { m with length := L } s = { absSec cfg m s with length := L } := by
  cases s with
  | custom nm content =>
    show absCustom { m with length := L } nm content = { absCustom m nm content with length := L }
    unfold absCustom; split <;> rfl
  | names subs =>
    show (if cfg.debug = true then subs.foldl absNameSub { m with length := L } else { m with length := L }) =
      { (if cfg.debug = true then subs.foldl absNameSub m else m) with length := L }
    split
    · exact foldl_absNameSub_setLength L subs m
    · rfl
  | «import» is => exact foldl_addImport_setLength L is m
  | _ => rfl

theorem accepts_setLength (cfg : Cfg) (m : RawModule) (L : Nat) (s : Sec) :
    accepts cfg { m with length := L } s = accepts cfg m s := by
  cases s <;> rfl

theorem absSecs_setLength (cfg : Cfg) (L : Nat) (ss : List Sec) : ∀ m : RawModule,
    absSecs cfg { m with length := L } ss = { absSecs cfg m ss with length := L } := by
  induction ss with
  | nil => intro m; rfl
  | cons s ss ih =>
    intro m
    show absSecs cfg (absSec cfg { m with length := L } s) ss = { absSecs cfg (absSec cfg m s) ss with length := L }
    rw [absSec_setLength, ih]

theorem acceptsAll_setLength (cfg : Cfg) (L : Nat) (ss : List Sec) : ∀ m : RawModule,
    acceptsAll cfg { m with length := L } ss = acceptsAll cfg m ss := by
  induction ss with
  | nil => intro m; rfl
  | cons s ss ih =>
    intro m
    simp only [acceptsAll]
    rw [accepts_setLength, absSec_setLength, ih]

/-- **module_encodings_agree**: any two encodings of the same sequence of (located) sections are BOTH accepted and
    decode to the same module, up to `RawModule.length` (the file length). -/
theorem module_encodings_agree (cfg : Cfg) (ss : List Sec) (bs₁ bs₂ : List UInt8) (h₁ : EncSecs ss bs₁)
    (h₂ : EncSecs ss bs₂) (ha : acceptsAll cfg (RawModule.empty 0) ss = true) :
    ∃ r₁ r₂, Model.Reader.read cfg (Reader.magic ++ bs₁) = .ok r₁ ∧ Model.Reader.read cfg (Reader.magic ++ bs₂) = .ok r₂ ∧
      r₂ = { r₁ with length := (Reader.magic ++ bs₂).length } := by
  have e : ∀ L, RawModule.empty L = { RawModule.empty 0 with length := L } := fun _ => rfl
  have a₁ : acceptsAll cfg (RawModule.empty (Reader.magic ++ bs₁).length) ss = true := by
    rw [e, acceptsAll_setLength]; exact ha
  have a₂ : acceptsAll cfg (RawModule.empty (Reader.magic ++ bs₂).length) ss = true := by
    rw [e, acceptsAll_setLength]; exact ha
  refine ⟨_, _, module_roundtrip cfg ss bs₁ h₁ a₁, module_roundtrip cfg ss bs₂ h₂ a₂, ?_⟩
  have s : ∀ L, absSecs cfg (RawModule.empty L) ss = { absSecs cfg (RawModule.empty 0) ss with length := L } := fun L =>
    absSecs_setLength cfg L ss (RawModule.empty 0)
  rw [s (Reader.magic ++ bs₂).length, s (Reader.magic ++ bs₁).length]

/-! ### the stored expression bytes

The reader does not evaluate constant expressions: `WasmGlobal.init`, `WasmElementSegment.offset` and
`WasmDataSegment.offset` are byte ranges of the file, and so are the function bodies.  Two encodings of a module that
pad an immediate INSIDE such a range differently therefore decode to modules that differ in that range — by two
encodings of the same expression.  That these ranges are decoded independently of the padding is the statement of the
instruction decoder (`leb_u_decode` / `leb_s_decode` above for the immediates, `emit_encoding_independent` for
bodies); on the reader's side the range is exactly the expression and can be re-read from the stored copy. -/

theorem stored_global_init (g : Located Glob) (b : List UInt8) (h : EncGlobal g.val g.expr b) :
    EncExpr g.val.init (absGlobal g).init := by
  generalize hv : g.val = v at h
  generalize he : g.expr = e at h
  cases h with
  | mk ht hx => simpa [absGlobal, he] using hx

/-- a stored constant expression is read back from the stored bytes alone, entirely -/
theorem stored_expr_rereadable (cfg : Cfg) (e : Nat) {ce : List CInstr} {eb : List UInt8} (h : EncExpr ce eb)
    (hs : supportedExpr ce = true) : sliced (constExpr cfg e) eb = .ok (eb, []) := by
  have := slicedConstExpr_enc cfg e h hs []
  rwa [List.append_nil] at this

/-! ## Non-vacuity: concrete encodings with redundant padding satisfy the hypotheses -/

set_option maxRecDepth 100000

/-- one-byte `u32` -/
theorem nv_u1 (b : UInt8) (h : b.toNat < 128) : ULeb 32 b.toNat [b] :=
  ULeb.last b (by decide) h (Nat.lt_trans h (by decide))

/-- the same value with one byte of redundant padding: `b+0x80, 0x00` -/
theorem nv_u2 (b : UInt8) (h : 128 ≤ b.toNat) : ULeb 32 (b.toNat - 128) [b, 0x00] := by
  have := ULeb.more (N := 32) (m := 0) b h (by decide) (ULeb.last 0x00 (by decide) (by decide) (by decide))
  simpa using this

theorem nv_s2 : SLeb 32 5 [0x85, 0x00] :=
  SLeb.more (m := 0) 0x85 (by decide) (by decide) (SLeb.pos 0x00 (by decide) (by decide) (by decide))

example : ULeb 32 1 [0x81, 0x00] := nv_u2 0x81 (by decide)
example : ULeb 32 0 [0x80, 0x00] := nv_u2 0x80 (by decide)
example : ULeb 32 3 [0x03] := nv_u1 0x03 (by decide)

/-- `i32.const 5` with a padded immediate, `end` -/
theorem nv_expr : EncExpr [.i32const 5] [0x41, 0x85, 0x00, 0x0B] :=
  EncExpr.mk (body := [0x41, 0x85, 0x00]) (EncSeq.cons (b := [0x41, 0x85, 0x00]) (bs := []) (EncCInstr.i32const nv_s2) EncSeq.nil)

theorem nv_expr0 : EncExpr [.i32const 0] [0x41, 0x00, 0x0B] :=
  EncExpr.mk (body := [0x41, 0x00]) (EncSeq.cons (b := [0x41, 0x00]) (bs := [])
    (EncCInstr.i32const (SLeb.pos 0x00 (by decide) (by decide) (by decide))) EncSeq.nil)

example (cfg : Cfg) (rest : Bytes) :
    sliced (constExpr cfg 0) ([0x41, 0x85, 0x00, 0x0B] ++ rest) = .ok ([0x41, 0x85, 0x00, 0x0B], rest) :=
  slicedConstExpr_enc cfg 0 nv_expr rfl rest

/-- global section: count 1 padded to two bytes; `(mut i32) (i32.const 5)` with the immediate padded -/
theorem nv_global : EncVector (fun (g : Located Glob) b => EncGlobal g.val g.expr b)
    [⟨⟨⟨.i32, true⟩, [.i32const 5]⟩, [0x41, 0x85, 0x00, 0x0B]⟩] [0x81, 0x00, 0x7F, 0x01, 0x41, 0x85, 0x00, 0x0B] :=
  EncVector.mk (as := [_]) (c := [0x81, 0x00]) (body := [0x7F, 0x01, 0x41, 0x85, 0x00, 0x0B]) (nv_u2 0x81 (by decide))
    (EncSeq.cons (b := [0x7F, 0x01, 0x41, 0x85, 0x00, 0x0B]) (bs := [])
      (EncGlobal.mk (t := [0x7F, 0x01]) rfl nv_expr) EncSeq.nil)

example (cfg : Cfg) (m : RawModule) (rest : Bytes) :
    globalSection cfg m ([0x81, 0x00, 0x7F, 0x01, 0x41, 0x85, 0x00, 0x0B] ++ rest) =
      .ok ({ m with globals := [{ type := { valueType := .i32, mutable := true }, init := [0x41, 0x85, 0x00, 0x0B] }] }, rest) :=
  globalSection_roundtrip cfg m _ _ rest nv_global rfl

/-- import section: `(import "a" "b" (func (type 0)))`, the length of "a" and the type index padded -/
theorem nv_import : EncVector EncImport [⟨[0x61], [0x62], .func 0⟩] [0x01, 0x81, 0x00, 0x61, 0x01, 0x62, 0x00, 0x80, 0x00] :=
  EncVector.mk (as := [_]) (c := [0x01]) (body := [0x81, 0x00, 0x61, 0x01, 0x62, 0x00, 0x80, 0x00]) (nv_u1 0x01 (by decide))
    (EncSeq.cons (b := [0x81, 0x00, 0x61, 0x01, 0x62, 0x00, 0x80, 0x00]) (bs := [])
      (EncImport.mk (a := [0x81, 0x00, 0x61]) (b := [0x01, 0x62]) (c := [0x00, 0x80, 0x00])
        (EncName.mk (nm := [0x61]) (nsz := [0x81, 0x00]) (nv_u2 0x81 (by decide)))
        (EncName.mk (nm := [0x62]) (nsz := [0x01]) (nv_u1 0x01 (by decide)))
        (EncImportDesc.func (b := [0x80, 0x00]) (nv_u2 0x80 (by decide)))) EncSeq.nil)

example (rest : Bytes) :
    importSection (RawModule.empty 100) ([0x01, 0x81, 0x00, 0x61, 0x01, 0x62, 0x00, 0x80, 0x00] ++ rest) =
      .ok ({ RawModule.empty 100 with funcImports := [{ module := [0x61], name := [0x62], typeIndex := 0 }] }, rest) :=
  importSection_roundtrip _ _ _ rest nv_import


/-- a module state with one type and one declared function -/
def nvM : RawModule :=
  { RawModule.empty 100 with types := [{ params := [], results := [] }], functions := [Function.empty 0] }

/-- export section: `(export "f" (func 0))`, the index padded -/
theorem nv_export : EncVector EncExport [⟨[0x66], .func 0⟩] [0x01, 0x01, 0x66, 0x00, 0x80, 0x00] :=
  EncVector.mk (as := [_]) (c := [0x01]) (body := [0x01, 0x66, 0x00, 0x80, 0x00]) (nv_u1 0x01 (by decide))
    (EncSeq.cons (b := [0x01, 0x66, 0x00, 0x80, 0x00]) (bs := [])
      (EncExport.mk (e := ⟨[0x66], .func 0⟩) (a := [0x01, 0x66]) (b := [0x80, 0x00])
        (EncName.mk (nm := [0x66]) (nsz := [0x01]) (nv_u1 0x01 (by decide))) (nv_u2 0x80 (by decide))) EncSeq.nil)

example (rest : Bytes) :
    exportSection nvM ([0x01, 0x01, 0x66, 0x00, 0x80, 0x00] ++ rest) =
      .ok ({ nvM with functions := [{ Function.empty 0 with exportName := some [0x66] }],
                      exports := [{ name := [0x66], kind := 0, index := 0 }] }, rest) :=
  exportSection_roundtrip nvM _ _ rest nv_export (by decide)

/-- element section: one segment in form 0, the flag padded (`80 00`), offset `i32.const 0`, functions `[0]` -/
theorem nv_elem : EncVector (fun (s : ElemLoc) b => EncElem s.flag s.seg s.expr b)
    [⟨.activeFuncs 0 [.i32const 0] [0], 0, [0x41, 0x00, 0x0B]⟩] [0x01, 0x80, 0x00, 0x41, 0x00, 0x0B, 0x01, 0x00] :=
  EncVector.mk (as := [_]) (c := [0x01]) (body := [0x80, 0x00, 0x41, 0x00, 0x0B, 0x01, 0x00]) (nv_u1 0x01 (by decide))
    (EncSeq.cons (b := [0x80, 0x00, 0x41, 0x00, 0x0B, 0x01, 0x00]) (bs := [])
      (EncElem.f0 (f := [0x80, 0x00]) (ob := [0x41, 0x00, 0x0B]) (y := [0x01, 0x00]) (nv_u2 0x80 (by decide)) nv_expr0
        (EncVector.mk (as := [0]) (c := [0x01]) (body := [0x00]) (nv_u1 0x01 (by decide))
          (EncSeq.cons (b := [0x00]) (bs := []) (nv_u1 0x00 (by decide)) EncSeq.nil))) EncSeq.nil)

example (cfg : Cfg) (m : RawModule) (rest : Bytes) :
    elementSection cfg m ([0x01, 0x80, 0x00, 0x41, 0x00, 0x0B, 0x01, 0x00] ++ rest) =
      .ok ({ m with elems := [{ tableIndex := 0, offset := [0x41, 0x00, 0x0B], funcs := [0] }] }, rest) :=
  elementSection_roundtrip cfg m _ _ rest nv_elem rfl

/-- code section: one body; size 5 padded (`85 00`); one group of ZERO locals of type i32 with a padded count
    (`80 00 7F`); instruction bytes `0B` -/
theorem nv_code : EncVector (fun (c : CodeLoc) b => EncCode c.code c.size c.locals b)
    [⟨⟨[⟨0, .i32⟩], [0x0B]⟩, [0x85, 0x00], [0x01, 0x80, 0x00, 0x7F]⟩] [0x01, 0x85, 0x00, 0x01, 0x80, 0x00, 0x7F, 0x0B] :=
  EncVector.mk (as := [_]) (c := [0x01]) (body := [0x85, 0x00, 0x01, 0x80, 0x00, 0x7F, 0x0B]) (nv_u1 0x01 (by decide))
    (EncSeq.cons (b := [0x85, 0x00, 0x01, 0x80, 0x00, 0x7F, 0x0B]) (bs := [])
      (EncCode.mk (c := ⟨[⟨0, .i32⟩], [0x0B]⟩) (sz := [0x85, 0x00]) (lb := [0x01, 0x80, 0x00, 0x7F])
        (EncVector.mk (as := [(⟨0, .i32⟩ : Locals)]) (c := [0x01]) (body := [0x80, 0x00, 0x7F]) (nv_u1 0x01 (by decide))
          (EncSeq.cons (b := [0x80, 0x00, 0x7F]) (bs := [])
            (EncLocals.mk (l := ⟨0, .i32⟩) (c := [0x80, 0x00]) (nv_u2 0x80 (by decide))) EncSeq.nil))
        (nv_u2 0x85 (by decide))) EncSeq.nil)

example (rest : Bytes) (h : rest.length ≤ 92) :
    codeSection nvM ([0x01, 0x85, 0x00, 0x01, 0x80, 0x00, 0x7F, 0x0B] ++ rest) =
      .ok ({ nvM with functions := [{ typeIndex := 0, locals := [{ count := 0, valueType := .i32 }], code := [0x0B],
                                       start := 7, hashed := some [0x01, 0x80, 0x00, 0x7F, 0x0B], exportName := none }] }, rest) :=
  codeSection_roundtrip nvM _ _ rest nv_code rfl (by simp [nvM, RawModule.empty]; omega)


/-- the data segment `(data (i32.const 0) "hi")` in form 0 … -/
theorem nv_data0 : EncData 0 (.active 0 [.i32const 0] [0x68, 0x69]) [0x41, 0x00, 0x0B] [0x00, 0x41, 0x00, 0x0B, 0x02, 0x68, 0x69] :=
  EncData.f0 (f := [0x00]) (ob := [0x41, 0x00, 0x0B]) (v := [0x02, 0x68, 0x69]) (nv_u1 0x00 (by decide)) nv_expr0
    (EncName.mk (nm := [0x68, 0x69]) (nsz := [0x02]) (nv_u1 0x02 (by decide)))

/-- … and in form 2 with memory index 0, flag, index and length padded -/
theorem nv_data2 : EncData 2 (.active 0 [.i32const 0] [0x68, 0x69]) [0x41, 0x00, 0x0B]
    [0x82, 0x00, 0x80, 0x00, 0x41, 0x00, 0x0B, 0x82, 0x00, 0x68, 0x69] :=
  EncData.f2 (f := [0x82, 0x00]) (xb := [0x80, 0x00]) (ob := [0x41, 0x00, 0x0B]) (v := [0x82, 0x00, 0x68, 0x69])
    (nv_u2 0x82 (by decide)) (nv_u2 0x80 (by decide)) nv_expr0
    (EncName.mk (nm := [0x68, 0x69]) (nsz := [0x82, 0x00]) (nv_u2 0x82 (by decide)))

/-- a passive segment (form 1) -/
theorem nv_data1 : EncData 1 (.passive [0x68]) [] [0x01, 0x01, 0x68] :=
  EncData.f1 (f := [0x01]) (v := [0x01, 0x68]) (nv_u1 0x01 (by decide))
    (EncName.mk (nm := [0x68]) (nsz := [0x01]) (nv_u1 0x01 (by decide)))

theorem nv_datas : EncVector (fun (s : DataLoc) b => EncData s.flag s.seg s.expr b)
    [⟨.active 0 [.i32const 0] [0x68, 0x69], 2, [0x41, 0x00, 0x0B]⟩, ⟨.passive [0x68], 1, []⟩]
    [0x02, 0x82, 0x00, 0x80, 0x00, 0x41, 0x00, 0x0B, 0x82, 0x00, 0x68, 0x69, 0x01, 0x01, 0x68] :=
  EncVector.mk (as := [_, _]) (c := [0x02]) (body := [0x82, 0x00, 0x80, 0x00, 0x41, 0x00, 0x0B, 0x82, 0x00, 0x68, 0x69, 0x01, 0x01, 0x68])
    (nv_u1 0x02 (by decide))
    (EncSeq.cons (b := [0x82, 0x00, 0x80, 0x00, 0x41, 0x00, 0x0B, 0x82, 0x00, 0x68, 0x69]) (bs := [0x01, 0x01, 0x68]) nv_data2
      (EncSeq.cons (b := [0x01, 0x01, 0x68]) (bs := []) nv_data1 EncSeq.nil))

example (cfg : Cfg) (m : RawModule) (rest : Bytes) :
    dataSection cfg m ([0x02, 0x82, 0x00, 0x80, 0x00, 0x41, 0x00, 0x0B, 0x82, 0x00, 0x68, 0x69, 0x01, 0x01, 0x68] ++ rest) =
      .ok ({ m with datas := [{ memoryIndex := 0, offset := [0x41, 0x00, 0x0B], bytes := [0x68, 0x69], passive := false },
                              { memoryIndex := 0, offset := [], bytes := [0x68], passive := true }] }, rest) :=
  dataSection_roundtrip cfg m _ _ rest nv_datas rfl

/-- `data_flag0_eq_flag2` applies to the two encodings above -/
example (cfg : Cfg) (rest0 rest2 : Bytes) :
    dataEntry cfg ([0x00, 0x41, 0x00, 0x0B, 0x02, 0x68, 0x69] ++ rest0) =
      .ok ({ memoryIndex := 0, offset := [0x41, 0x00, 0x0B], bytes := [0x68, 0x69], passive := false }, rest0) ∧
    dataEntry cfg ([0x82, 0x00, 0x80, 0x00, 0x41, 0x00, 0x0B, 0x82, 0x00, 0x68, 0x69] ++ rest2) =
      .ok ({ memoryIndex := 0, offset := [0x41, 0x00, 0x0B], bytes := [0x68, 0x69], passive := false }, rest2) :=
  let h := data_flag0_eq_flag2 cfg (RawModule.empty 0) _ _ _ _ _ rfl nv_data0 nv_data2 rest0 rest2
  ⟨h.1, h.2.1⟩

/-- custom section payload: name "x" (length padded), content `01 02 03` -/
theorem nv_custom : EncPayload (.custom [0x78] [1, 2, 3]) [0x81, 0x00, 0x78, 1, 2, 3] :=
  EncPayload.custom (a := [0x81, 0x00, 0x78]) (EncName.mk (nm := [0x78]) (nsz := [0x81, 0x00]) (nv_u2 0x81 (by decide)))

example (cfg : Cfg) (m : RawModule) (rest : Bytes) :
    customSection cfg 6 m ([0x81, 0x00, 0x78, 1, 2, 3] ++ rest) = .ok (m, rest) :=
  customSection_roundtrip cfg m [0x78] [1, 2, 3] [0x81, 0x00, 0x78, 1, 2, 3] rest nv_custom (by decide)
    (by cases cfg with | mk d s => cases d <;> cases s <;> decide)

/-- the name section: `name`, a module-name subsection (id 0, skipped), the function names `{0 ↦ "f"}` with the
    subsection size padded -/
theorem nv_names : EncPayload (.names [.other 0x00 [0x01, 0x6D], .funcNames [(0, [0x66])]])
    [0x04, 0x6E, 0x61, 0x6D, 0x65, 0x00, 0x02, 0x01, 0x6D, 0x01, 0x84, 0x00, 0x01, 0x00, 0x01, 0x66] :=
  EncPayload.names (a := [0x04, 0x6E, 0x61, 0x6D, 0x65]) (body := [0x00, 0x02, 0x01, 0x6D, 0x01, 0x84, 0x00, 0x01, 0x00, 0x01, 0x66])
    (EncName.mk (nm := nameSectionNameBytes) (nsz := [0x04]) (nv_u1 0x04 (by decide)))
    (EncSeq.cons (b := [0x00, 0x02, 0x01, 0x6D]) (bs := [0x01, 0x84, 0x00, 0x01, 0x00, 0x01, 0x66])
      (EncNameSub.other (id := 0x00) (content := [0x01, 0x6D]) (sz := [0x02]) (by decide) (nv_u1 0x02 (by decide)))
      (EncSeq.cons (b := [0x01, 0x84, 0x00, 0x01, 0x00, 0x01, 0x66]) (bs := [])
        (EncNameSub.funcNames (as := [(0, [0x66])]) (p := [0x01, 0x00, 0x01, 0x66]) (sz := [0x84, 0x00])
          (EncVector.mk (as := [(0, [0x66])]) (c := [0x01]) (body := [0x00, 0x01, 0x66]) (nv_u1 0x01 (by decide))
            (EncSeq.cons (b := [0x00, 0x01, 0x66]) (bs := [])
              (EncNameAssoc.mk (a := (0, [0x66])) (ib := [0x00]) (nb := [0x01, 0x66]) (nv_u1 0x00 (by decide))
                (EncName.mk (nm := [0x66]) (nsz := [0x01]) (nv_u1 0x01 (by decide)))) EncSeq.nil))
          (nv_u2 0x84 (by decide))) EncSeq.nil))

example (strict : Bool) (rest : Bytes) :
    customSection ⟨true, strict⟩ 16 nvM
        ([0x04, 0x6E, 0x61, 0x6D, 0x65, 0x00, 0x02, 0x01, 0x6D, 0x01, 0x84, 0x00, 0x01, 0x00, 0x01, 0x66] ++ rest) =
      .ok ({ nvM with funcNames := [some [0x66]], funcNamesLen := 1 }, rest) :=
  nameSection_roundtrip ⟨true, strict⟩ rfl nvM _
    [0x04, 0x6E, 0x61, 0x6D, 0x65, 0x00, 0x02, 0x01, 0x6D, 0x01, 0x84, 0x00, 0x01, 0x00, 0x01, 0x66] rest nv_names (by decide)

/-- the same name section IN FRONT of the function section (no function known yet): the name is read and ignored, the
    module is accepted and unchanged -/
example (strict : Bool) (rest : Bytes) :
    customSection ⟨true, strict⟩ 16 (RawModule.empty 100)
        ([0x04, 0x6E, 0x61, 0x6D, 0x65, 0x00, 0x02, 0x01, 0x6D, 0x01, 0x84, 0x00, 0x01, 0x00, 0x01, 0x66] ++ rest) =
      .ok (RawModule.empty 100, rest) :=
  nameSection_roundtrip ⟨true, strict⟩ rfl (RawModule.empty 100) _
    [0x04, 0x6E, 0x61, 0x6D, 0x65, 0x00, 0x02, 0x01, 0x6D, 0x01, 0x84, 0x00, 0x01, 0x00, 0x01, 0x66] rest nv_names (by decide)

/-- a SECOND name section after one more function became known: the earlier entry is kept, the new slot starts empty and
    is then named (here: the same subsections again on a table `[some "f"]` with two functions known) -/
example (strict : Bool) (rest : Bytes) :
    customSection ⟨true, strict⟩ 16
        { nvM with functions := [Function.empty 0, Function.empty 0], funcNames := [some [0x66]], funcNamesLen := 1 }
        ([0x04, 0x6E, 0x61, 0x6D, 0x65, 0x00, 0x02, 0x01, 0x6D, 0x01, 0x84, 0x00, 0x01, 0x00, 0x01, 0x66] ++ rest) =
      .ok ({ nvM with functions := [Function.empty 0, Function.empty 0], funcNames := [some [0x66], none], funcNamesLen := 2 }, rest) :=
  nameSection_roundtrip ⟨true, strict⟩ rfl _ _
    [0x04, 0x6E, 0x61, 0x6D, 0x65, 0x00, 0x02, 0x01, 0x6D, 0x01, 0x84, 0x00, 0x01, 0x00, 0x01, 0x66] rest nv_names (by decide)

/-- `read_encode_roundtrip` on a framed global section (size 8 padded to `88 00`) and on a framed custom section -/
theorem nv_sec_global : EncSec (.global [⟨⟨⟨.i32, true⟩, [.i32const 5]⟩, [0x41, 0x85, 0x00, 0x0B]⟩])
    [0x06, 0x88, 0x00, 0x81, 0x00, 0x7F, 0x01, 0x41, 0x85, 0x00, 0x0B] :=
  EncSec.mk (s := .global _) (p := [0x81, 0x00, 0x7F, 0x01, 0x41, 0x85, 0x00, 0x0B]) (sz := [0x88, 0x00])
    (EncPayload.global nv_global) (nv_u2 0x88 (by decide))

theorem nv_sec_custom : EncSec (.custom [0x78] [1, 2, 3]) [0x00, 0x06, 0x81, 0x00, 0x78, 1, 2, 3] :=
  EncSec.mk (s := .custom _ _) (p := [0x81, 0x00, 0x78, 1, 2, 3]) (sz := [0x06]) nv_custom (nv_u1 0x06 (by decide))

example (cfg : Cfg) (rest : Bytes) (h : rest.length ≤ 80) :
    readSection cfg (RawModule.empty 100) ([0x06, 0x88, 0x00, 0x81, 0x00, 0x7F, 0x01, 0x41, 0x85, 0x00, 0x0B] ++ rest) =
      .ok ({ RawModule.empty 100 with
              globals := [{ type := { valueType := .i32, mutable := true }, init := [0x41, 0x85, 0x00, 0x0B] }] }, rest) :=
  read_encode_roundtrip cfg _ _ _ rest nv_sec_global rfl (by simp [RawModule.empty]; omega)

/-- `module_roundtrip` / `module_encodings_agree`: custom section, global section, custom section -/
theorem nv_module : EncSecs [.custom [0x78] [1, 2, 3], .global [⟨⟨⟨.i32, true⟩, [.i32const 5]⟩, [0x41, 0x85, 0x00, 0x0B]⟩],
      .custom [0x78] [1, 2, 3]]
    ([0x00, 0x06, 0x81, 0x00, 0x78, 1, 2, 3] ++ ([0x06, 0x88, 0x00, 0x81, 0x00, 0x7F, 0x01, 0x41, 0x85, 0x00, 0x0B] ++
      ([0x00, 0x06, 0x81, 0x00, 0x78, 1, 2, 3] ++ []))) :=
  EncSeq.cons nv_sec_custom (EncSeq.cons nv_sec_global (EncSeq.cons nv_sec_custom EncSeq.nil))

example (strict : Bool) : ∃ L,
    Model.Reader.read ⟨false, strict⟩ (Reader.magic ++ ([0x00, 0x06, 0x81, 0x00, 0x78, 1, 2, 3] ++
      ([0x06, 0x88, 0x00, 0x81, 0x00, 0x7F, 0x01, 0x41, 0x85, 0x00, 0x0B] ++ ([0x00, 0x06, 0x81, 0x00, 0x78, 1, 2, 3] ++ [])))) =
      .ok { RawModule.empty L with
              globals := [{ type := { valueType := .i32, mutable := true }, init := [0x41, 0x85, 0x00, 0x0B] }] } :=
  ⟨_, module_roundtrip ⟨false, strict⟩ _ _ nv_module rfl⟩


/-! ## What lies outside the hypotheses

Encodings the grammar allows and `accepts` excludes: the reader's answer is shown (none of them is silently mapped to
a default by the theorems above — they simply do not apply). -/

/-- `ref.func 0` is a constant expression of the grammar that the reader rejects -/
example (cfg : Cfg) : EncExpr [.refFunc 0] [0xD2, 0x00, 0x0B] ∧ supportedExpr [.refFunc 0] = false ∧
    constExpr cfg 7 [0xD2, 0x00, 0x0B] = .err 7 :=
  ⟨EncExpr.mk (body := [0xD2, 0x00]) (EncSeq.cons (b := [0xD2, 0x00]) (bs := []) (EncCInstr.refFunc (nv_u1 0x00 (by decide))) EncSeq.nil),
   rfl, rfl⟩

theorem nv_elem2 : EncElem 2 (.activeFuncs 0 [.i32const 0] [0]) [0x41, 0x00, 0x0B] [0x02, 0x00, 0x41, 0x00, 0x0B, 0x00, 0x01, 0x00] :=
  EncElem.f2 (f := [0x02]) (xb := [0x00]) (ob := [0x41, 0x00, 0x0B]) (y := [0x01, 0x00]) (nv_u1 0x02 (by decide))
    (nv_u1 0x00 (by decide)) nv_expr0
    (EncVector.mk (as := [0]) (c := [0x01]) (body := [0x00]) (nv_u1 0x01 (by decide))
      (EncSeq.cons (b := [0x00]) (bs := []) (nv_u1 0x00 (by decide)) EncSeq.nil))

example (cfg : Cfg) : elemEntry cfg [0x02, 0x00, 0x41, 0x00, 0x0B, 0x00, 0x01, 0x00] = .err E.invalidElementSectionOffsetExpression := rfl

theorem nv_elem4 : EncElem 4 (.activeExprs 0 [.i32const 0] 0x70 []) [0x41, 0x00, 0x0B] [0x04, 0x41, 0x00, 0x0B, 0x00] :=
  EncElem.f4 (f := [0x04]) (ob := [0x41, 0x00, 0x0B]) (y := [0x00]) (nv_u1 0x04 (by decide)) nv_expr0
    (EncVector.mk (as := []) (c := [0x00]) (body := []) (nv_u1 0x00 (by decide)) EncSeq.nil)

example (cfg : Cfg) : elemEntry cfg [0x04, 0x41, 0x00, 0x0B, 0x00] = .ok ({ tableIndex := 4, offset := [0x41, 0x00, 0x0B], funcs := [] }, []) := rfl

example : tableType [0x6F, 0x00, 0x00] = .err E.invalidTableSectionTableType := rfl

/-- A form-2 segment for table 65 with offset `i32.const 11` and nine functions is not rejected either: it is
    decoded as a segment for "table 2" at offset `i32.const -63` with eleven functions. -/
example (cfg : Cfg) :
    elemEntry cfg [0x02, 0x41, 0x41, 0x0B, 0x0B, 0x00, 0x09, 1, 2, 3, 4, 5, 6, 7, 8, 9] =
      .ok ({ tableIndex := 2, offset := [0x41, 0x41, 0x0B], funcs := [0, 9, 1, 2, 3, 4, 5, 6, 7, 8, 9] }, []) := rfl

/-- an export of function 1 in a module with one function, a code section with no entry for it: rejected -/
example : exportSection nvM [0x01, 0x01, 0x66, 0x00, 0x01] = .err E.invalidExportSectionExportIndex := rfl
example : codeSection nvM [0x00] = .err E.invalidCodeSectionFunctionCount := rfl

end W2c2Verif.Props.C08
