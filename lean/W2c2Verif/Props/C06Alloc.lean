/-
  C06, "memories and tables of the declared minimum size …": state that must be zero / null after instantiation must not depend on
  what the heap held before (a recycled chunk of a freed instance).  `Model.Instantiate` allocates `Array.replicate n 0 / none`; this
  file justifies that from the allocator the runtime REALLY calls (`Gen.Alloc`, regenerated from wasmTableAllocate / wasmMemoryAllocate):

  * `fresh_table_is_null` / `fresh_memory_is_zero`: for ANY previous heap content the new block is all NULL slots / zero bytes —
    exactly what `Model.Inst.initTables` / `initMemories` allocate.
  * `uncovered_table_slot_null` / `uncovered_memory_byte_zero`: hence, in the specified post-instantiation state, every slot of a
    defined table that no element segment covers is null and every byte of a defined memory that no active data segment covers is zero.
  Tied to the real runtime: every e2e / inst-state / family binary runs with glibc's MALLOC_PERTURB_ (malloc'd and freed bytes are
  non-zero, calloc'd ones zero), and the families release an instance (<module>FreeInstance) and instantiate again in the same process.
-/
import W2c2Verif.Model.Alloc
import W2c2Verif.Props.C06

namespace W2c2Verif.Props.C06Alloc
open W2c2Verif Model Model.Inst Spec.Inst Model.Alloc

theorem fresh_table_is_null (stale : Nat → Option Nat) (size : Nat) : freshTable stale size = Array.replicate size none := by
  simp [freshTable, freshCells, zeroed, Gen.Alloc.tableData]

theorem fresh_memory_is_zero (stale : Nat → UInt8) (bytes : Nat) : freshMemory stale bytes = Array.replicate bytes 0 := by
  simp [freshMemory, freshCells, zeroed, Gen.Alloc.memoryData]

theorem lastCover_uncovered {α} (segs : List (Seg α)) (prior : α) (k : Nat) (h : ∀ s ∈ segs, s.at k = none) :
    lastCover segs prior k = prior := by
  unfold lastCover
  induction segs generalizing prior with
  | nil => rfl
  | cons s rest ih =>
    simp only [List.foldl_cons, h s (by simp), Option.getD_none]
    exact ih prior (fun s' hs' => h s' (by simp [hs']))

/-- a slot of a defined table that no element segment covers is null -/
theorem uncovered_table_slot_null (d : ModDesc) (r : Resolver) (w : World) (s : St) (hi : Initialised d w r s)
    (k : Nat) (tt : Nat × Nat) (hk : d.tables[k]? = some tt) (a : Nat) (ha : a < tt.1)
    (hun : ∀ seg ∈ elemSegsAt d w r (w.tables.length + k), seg.at a = none) :
    cell s.1.tables (w.tables.length + k) a = some none := by
  have hn : ¬ (w.tables.length + k < w.tables.length) := by omega
  rw [hi.table]
  simp [tableAfter, tablePrior, hk, ha, hn, lastCover_uncovered _ _ _ hun]

/-- a byte of a defined memory that no active data segment covers is zero -/
theorem uncovered_memory_byte_zero (d : ModDesc) (r : Resolver) (w : World) (s : St) (hi : Initialised d w r s)
    (k : Nat) (mm : Nat × Nat) (hk : d.mems[k]? = some mm) (a : Nat) (ha : a < mm.1 * pageSize)
    (hun : ∀ seg ∈ dataSegsAt d w r (w.mems.length + k), seg.at a = none) :
    cell s.1.mems (w.mems.length + k) a = some 0 := by
  have hn : ¬ (w.mems.length + k < w.mems.length) := by omega
  rw [hi.mem]
  simp [memAfter, memPrior, hk, ha, hn, lastCover_uncovered _ _ _ hun]

/-- non-vacuity: whatever the heap held (here: 0x5a5a… pointers), the new 3-slot table is null -/
example : freshTable (fun _ => some 0x5a5a) 3 = #[none, none, none] := by decide

end W2c2Verif.Props.C06Alloc
