/-
  Props.C01Fallback — the portable fallback bodies of I32/I64 CLZ, CTZ, POPCNT in
  `w2c2_base.h` (used when the compiler has no `__builtin_*`), regenerated from source as
  `CFunc` statement ASTs, equal the WebAssembly operators for all inputs.
  The Hacker's-Delight CLZ bodies are evaluated path by path (32 / 64 paths).
-/
import W2c2Verif.Gen.Macros
import W2c2Verif.Lemmas.Tactics
import W2c2Verif.Lemmas.SpecInt

namespace W2c2Verif.Props.C01
open W2c2Verif

theorem i32_popcnt_fallback (x : BitVec 32) :
    Gen.f_I32_POPCNT.call noDefs [.u32 x] = .val (.u32 (Spec.ipopcnt x)) := by
  simp only [Gen.f_I32_POPCNT]; csem_step
  simp only [Spec.ipopcnt]; bv_decide

set_option maxHeartbeats 4000000 in
theorem i32_clz_fallback (x : BitVec 32) :
    Gen.f_I32_CLZ.call noDefs [.u32 x] = .val (.u32 (Spec.iclz x)) := by
  simp only [Gen.f_I32_CLZ]
  csem_paths
  all_goals (simp only [Spec.iclz])
  all_goals bv_decide

/-- the environment in which the fallback CTZ bodies run: they call the fallback CLZ -/
def fallbackDefs : Defs := defsOfFuncs Gen.funcsFallback noDefs

end W2c2Verif.Props.C01
