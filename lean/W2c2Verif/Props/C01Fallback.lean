/-
  Props.C01Fallback — the portable fallback bodies of I32/I64 CLZ, CTZ, POPCNT in
  `w2c2_base.h` (used when the compiler has no `__builtin_*`), regenerated from source as
  `CFunc` statement ASTs, equal the WebAssembly operators for ALL inputs, in both widths:

    i32_clz_fallback    i64_clz_fallback      (Hacker's-Delight binary search; the body is
                                               evaluated path by path: 32 / 64 paths, each path
                                               condition + result closed by `bv_decide`)
    i32_ctz_fallback    i64_ctz_fallback      (`N - CLZ(~x & (x - 1))`; evaluated in `fallbackDefs`,
                                               where the callee is the fallback CLZ body; the CLZ
                                               theorems are used as rewrite rules for the call)
    i32_popcnt_fallback i64_popcnt_fallback   (SWAR popcount, one `bv_decide` against `BitVec.cpop`)

  Every theorem is for the regenerated body as it is (argument and result types of the C
  function: U32 → U32, U64 → U64) and has no side condition.
-/
import W2c2Verif.Gen.Macros
import W2c2Verif.Lemmas.Tactics
import W2c2Verif.Lemmas.SpecInt

namespace W2c2Verif.Props.C01
open W2c2Verif

/-! ### POPCNT -/

theorem i32_popcnt_fallback (x : BitVec 32) :
    Gen.f_I32_POPCNT.call noDefs [.u32 x] = .val (.u32 (Spec.ipopcnt x)) := by
  simp only [Gen.f_I32_POPCNT]; csem_step
  simp only [Spec.ipopcnt]; bv_decide

theorem i64_popcnt_fallback (x : BitVec 64) :
    Gen.f_I64_POPCNT.call noDefs [.u64 x] = .val (.u64 (Spec.ipopcnt x)) := by
  simp only [Gen.f_I64_POPCNT]; csem_step
  simp only [Spec.ipopcnt]; bv_decide

/-! ### CLZ -/

set_option maxHeartbeats 4000000 in
theorem i32_clz_fallback (x : BitVec 32) :
    Gen.f_I32_CLZ.call noDefs [.u32 x] = .val (.u32 (Spec.iclz x)) := by
  simp only [Gen.f_I32_CLZ]
  csem_paths
  all_goals (simp only [Spec.iclz])
  all_goals bv_decide

set_option maxHeartbeats 8000000 in
/-- `I64 n = 64; U64 y = x >> 32; if (y != 0) { n -= 32; x = y; } … return n - x;` — `n` is a
    signed 64-bit local, the result is converted to the `U64` return type. 64 paths. -/
theorem i64_clz_fallback (x : BitVec 64) :
    Gen.f_I64_CLZ.call noDefs [.u64 x] = .val (.u64 (Spec.iclz x)) := by
  simp only [Gen.f_I64_CLZ]
  csem_paths
  all_goals (simp only [Spec.iclz])
  all_goals bv_decide

/-! ### CTZ -/

/-- the environment in which the fallback CTZ bodies run: they call the fallback CLZ -/
def fallbackDefs : Defs := defsOfFuncs Gen.funcsFallback noDefs

/-- evaluate the body of a caller (the outer `CFunc.call` already unfolded) without unfolding
    `CFunc.call` / `noDefs`, so that calls of already verified callees stay in the form
    `callee.call noDefs [v]` and are rewritten by the given theorems -/
local macro "csem_caller" "[" ls:Lean.Parser.Tactic.simpLemma,* "]" : tactic => `(tactic|
  simp +decide [CExpr.eval, CExpr.typeOf, CStmt.exec_seq, CStmt.exec_skip, CStmt.exec_decl,
        CStmt.exec_assign, CStmt.exec_opAssign, CStmt.exec_ifThen, CStmt.exec_ret, bindParams, Env.get, Env.set, List.zip,
        CVal.fromNat, CVal.fromInt, CVal.binop, CVal.unop, CVal.shift, CVal.withAmt, CPrim.amtOk, CTy.common, CTy.promote, CVal.ty,
        CPrim.cmpS, CPrim.cmpU, CPrim.arithS, CPrim.arithU, CPrim.shiftU, CPrim.shiftS, BinOp.isCmp,
        Out.map', builtin1, builtin2, defsOfFuncs, fallbackDefs, Gen.funcsFallback,
        lookupAssoc, -BitVec.shiftLeft_eq', -BitVec.ushiftRight_eq', -BitVec.sshiftRight_eq', $ls,*])

/-- `return 32 - I32_CLZ(~x & (x - 1));` with `I32_CLZ` the fallback body above -/
theorem i32_ctz_fallback (x : BitVec 32) :
    Gen.f_I32_CTZ.call fallbackDefs [.u32 x] = .val (.u32 (Spec.ictz x)) := by
  simp only [Gen.f_I32_CTZ, CFunc.call]
  csem_caller [i32_clz_fallback]
  simp only [Spec.iclz, Spec.ictz]; bv_decide

/-- `return 64 - I64_CLZ(~x & (x - 1));` with `I64_CLZ` the fallback body above -/
theorem i64_ctz_fallback (x : BitVec 64) :
    Gen.f_I64_CTZ.call fallbackDefs [.u64 x] = .val (.u64 (Spec.ictz x)) := by
  simp only [Gen.f_I64_CTZ, CFunc.call]
  csem_caller [i64_clz_fallback]
  simp only [Spec.iclz, Spec.ictz]; bv_decide

end W2c2Verif.Props.C01
