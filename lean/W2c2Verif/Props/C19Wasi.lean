/-
  Props.C19Wasi — C19 for the WASI host (wasi/wasi.c): the host reads and writes guest linear memory too, so on a
  big-endian host it must present the same little-endian records as on a little-endian one.

  wasi.c has exactly two ways to reach guest memory: the accessor functions of w2c2_base.h (for which Props.C19 proves
  "one byte reversal of exactly the access width on a big-endian host, none for 8-bit accesses") and the raw byte array
  `memory->data`.  `Gen.WasiRaw` is regenerated from the CURRENT wasi.c on every run and lists EVERY raw touch (each
  `memory->data`, each use of a pointer alias made from it, followed into the callees defined in wasi.c; all preprocessor
  branches; an unclassifiable shape is an EXTRACT-FAIL, never a skipped row) and EVERY accessor call.  The theorems:

    * `wasi_raw_touches_move_bytes` — every raw touch moves bytes: the other operand is a byte buffer, a memset fill, an
      iovec base handed to readv/writev, a byte parameter of a host function, a single byte — never the address of / a
      pointer to an object of width 16/32/64 (`&wasiFlags`, `U32*`, a struct …), and guest memory is never cast to one.
    * `wasi_accessors_match_witx` — the accessor calls of wasi.c are exactly the multi-byte cells of the WASI ABI
      (`Spec.WasiAbi.abiCells`, written by hand from the witx): same function, pointer, offset, direction and WIDTH — in both
      directions (no cell missing, no extra or differently sized access).  So every field of width 16/32/64 is accessed
      by one accessor of exactly that width (e.g. a 64-bit timestamp is not two 32-bit halves; fs_flags is one 16-bit store).
    * `wasi_records_zero_filled` — the records with padding are zero-filled (memset over exactly the record size).
    * `wasi_accessor_widths` — the width recorded for every call is the width of that accessor's definition.

  The quantifiers range over the regenerated tables, which ARE the finite objects the statements are about (the list of
  raw touches of this wasi.c); `decide` evaluating the whole table in the kernel is therefore a proof, not a sample.
  That the tables list everything is the extractor's obligation (trusted base; exercised on every run by the forced
  big-endian correspondence `wasi-endian`, which runs the real wasi.c and would show a missed host-order write as a
  byte-reversed field).
-/
import W2c2Verif.Gen.WasiRaw

namespace W2c2Verif.Props.C19
open W2c2Verif W2c2Verif.Spec.WasiAbi

/-- every raw (non-accessor) touch of guest memory by the WASI host moves bytes -/
theorem wasi_raw_touches_move_bytes : ∀ t ∈ Gen.WasiRaw.rawTouches, t.other.movesBytes = true := by decide

/-- every accessor call of wasi.c is a cell of the ABI with the witx width … -/
theorem wasi_accessors_within_witx : ∀ a ∈ Gen.WasiRaw.accessorCalls, a.cell ∈ abiCells := by decide

/-- … and every multi-byte cell of the ABI is accessed by an accessor call of exactly that width -/
theorem wasi_witx_within_accessors : ∀ c ∈ abiCells, c ∈ Gen.WasiRaw.accessorCalls.map AccessorCall.cell := by decide

/-- the accessor calls of wasi.c are exactly the multi-byte cells of the WASI ABI -/
theorem wasi_accessors_match_witx (c : Cell) : c ∈ Gen.WasiRaw.accessorCalls.map AccessorCall.cell ↔ c ∈ abiCells := by
  constructor
  · intro h
    obtain ⟨a, ha, rfl⟩ := List.mem_map.mp h
    exact wasi_accessors_within_witx a ha
  · exact wasi_witx_within_accessors c

/-- the width recorded for each call is the width of the accessor it names (DEFINE_LOADnn / DEFINE_STOREnn of w2c2_base.h) -/
theorem wasi_accessor_widths : ∀ a ∈ Gen.WasiRaw.accessorCalls, (a.accessor, a.width) ∈ Gen.WasiRaw.accessorWidths := by decide

/-- the accessor names carry their width: …8 = 1 byte, …16 = 2, …32 / i32_/f32_ = 4, i64_/f64_ = 8 (the table read from w2c2_base.h) -/
theorem accessor_table_widths :
    (("i32_store8", 1) ∈ Gen.WasiRaw.accessorWidths) ∧ (("i32_store16", 2) ∈ Gen.WasiRaw.accessorWidths) ∧
    (("i32_store", 4) ∈ Gen.WasiRaw.accessorWidths) ∧ (("i64_store", 8) ∈ Gen.WasiRaw.accessorWidths) ∧
    (("i32_load", 4) ∈ Gen.WasiRaw.accessorWidths) ∧ (("i64_load", 8) ∈ Gen.WasiRaw.accessorWidths) ∧
    (("i32_load16_u", 2) ∈ Gen.WasiRaw.accessorWidths) ∧ (("i32_load8_u", 1) ∈ Gen.WasiRaw.accessorWidths) := by decide

/-- the records with padding are zero-filled over exactly their size before the fields are stored -/
theorem wasi_records_zero_filled : ∀ z ∈ zeroFilled,
    ∃ t ∈ Gen.WasiRaw.rawTouches, t.fn = z.1 ∧ t.op = "memset" ∧ t.other = .fill ∧ t.otherExpr = "0" ∧ t.len = some z.2 := by decide

/-- every memset of guest memory in wasi.c is one of those zero fills (there is no other fill of guest memory) -/
theorem wasi_memsets_are_record_fills : ∀ t ∈ Gen.WasiRaw.rawTouches, t.op = "memset" →
    ∃ z ∈ zeroFilled, t.fn = z.1 ∧ t.len = some z.2 := by decide

/-- the hand-written layouts are well formed: naturally aligned fields of width 1/2/4/8 inside the record, ascending, disjoint -/
theorem witx_layouts_well_formed :
    fdstat.wellFormed ∧ filestatPreview1.wellFormed ∧ filestatUnstable.wellFormed ∧ prestat.wellFormed ∧ dirent.wellFormed ∧ iovec.wellFormed := by decide

/-- per struct-writing function: the accessor stores through the record pointer are exactly the record's fields (offset, width) -/
def storesOf (fn base : String) : List (Nat × Nat) := storesIn Gen.WasiRaw.accessorCalls fn base

theorem fdstat_stores : storesOf "wasiFdFdstatGet" "resultPointer" = fdstat.layout := by decide
theorem filestat_preview1_stores : storesOf "storePreview1Filestat" "statPointer" = filestatPreview1.layout := by decide
theorem filestat_unstable_stores : storesOf "storeUnstableFilestat" "statPointer" = filestatUnstable.layout := by decide
theorem dirent_stores : storesOf "wasiFDReaddir" "resultPointer" = dirent.layout := by decide
/-- prestat: the u8 tag (offset 0) is covered by the 32-bit store at offset 0 (its low byte in little-endian order; the
    other three bytes are the record's padding), pr_name_len by the 32-bit store at offset 4 -/
theorem prestat_stores : storesOf "fd_prestat_get" "prestatPointer" = [(0, 4), (4, 4)] ∧
    prestat.layout = [(0, 1), (4, 4)] := by decide

/-- non-vacuity: the tables are not empty and contain the sites the statement is about … -/
example : Gen.WasiRaw.rawTouches.length ≥ 20 ∧ Gen.WasiRaw.accessorCalls.length ≥ 40 := by decide
example : ∃ t ∈ Gen.WasiRaw.rawTouches, t.fn = "wasiFdFdstatGet" ∧ t.other = .fill := by decide
example : ∃ t ∈ Gen.WasiRaw.rawTouches, t.op = "memcpy" ∧ t.dir = .toGuest ∧ t.other = .bytes := by decide
example : ∃ t ∈ Gen.WasiRaw.rawTouches, t.other = .iovBase := by decide
/-- … and the predicate does reject what it must: `memcpy(memory->data + resultPointer + 2, &wasiFlags, sizeof(wasiFlags))`
    with `U16 wasiFlags` is the row `other := .object 2` -/
example : (Operand.object 2).movesBytes = false := rfl
def seededRow : RawTouch :=
  { fn := "wasiFdFdstatGet", line := 0, op := "memcpy", dir := .toGuest, guest := "memory->data + resultPointer + 2",
    otherExpr := "&wasiFlags", otherTy := "&U16", other := .object 2, len := none }
example : ¬ ∀ t ∈ seededRow :: Gen.WasiRaw.rawTouches, t.other.movesBytes = true := by decide

end W2c2Verif.Props.C19
