/-
  C06 — instantiation builds the specified initial state, once, per instance.

  Model: `Model.Instantiate` — `<module>Instantiate` as the generated C performs it: the sequence of Init* calls and
  the guard of every call are `Gen.instantiateSteps` (regenerated from `wasmCWriteInstantiateFunction` on every
  run); InitImports binds what the resolver returns, InitMemories allocates fresh zeroed memories and copies every
  active data segment in module order into ITS memory (defined or imported), InitTables allocates tables and stores
  element segments entry by entry, InitGlobals evaluates the constant initialisers, the start function runs last.
  Specification: `Spec.Instantiate` — declarative (last covering segment wins, else prior content; new objects
  zeroed; globals = value of their initialiser; instantiation fails unless every active segment fits).

  `instantiate_refines_spec` carries the hypothesis `Fits` = "the specification does not trap": w2c2 emits no bounds
  checks, a segment that does not fit is C undefined behaviour (`.ub .outOfBounds` in the model) and outside the
  property.  The start function is a parameter (any function of the state; its own semantics is C03/C04's subject).
  Exports (`<module>_<name>` wrappers) are rendered text, tied by the e2e correspondence of tools/checks/c06.py.
-/
import W2c2Verif.Lemmas.InstantiateFrame

namespace W2c2Verif.Props.C06
open W2c2Verif Model Model.Inst Spec.Inst

/-- For every module description, resolver and embedder state in which the specification's instantiation does not
    trap: the emitted `Instantiate` yields exactly the specified state — imports bound to what the resolver returned,
    fresh memories/tables of the declared minimum size, every byte/slot equal to the LAST active segment covering it
    (any number of overlapping segments, into defined or imported objects) and otherwise the prior content, globals
    equal to their initialisers — and then hands that state to the start function (if any). -/
theorem instantiate_refines_spec (d : ModDesc) (r : Resolver) (w : World) (start : St → Out St) (hf : Fits d w r) :
    ∃ s, Initialised d w r s ∧ instantiate d r start w = (if d.hasStart then start s else .val s) := by
  obtain ⟨s, hs, hi⟩ := initAll_spec d r w hf
  refine ⟨s, hi, ?_⟩
  rw [instantiate_eq, hs]
  rfl

/-- the start function is entered exactly once, after everything else, and nothing runs after it:
    `Instantiate` IS "initialise; then start (if the module has one)" -/
theorem start_once (d : ModDesc) (r : Resolver) (w : World) (start : St → Out St) :
    instantiate d r start w = (initAll d r w >>= fun s => if d.hasStart then start s else .val s) :=
  instantiate_eq d r start w

/-- a module without start function: the start parameter is never consulted -/
theorem no_start_no_call (d : ModDesc) (r : Resolver) (w : World) (st1 st2 : St → Out St) (h : d.hasStart = false) :
    instantiate d r st1 w = instantiate d r st2 w := by
  rw [instantiate_eq, instantiate_eq, h]; rfl

/-- data segments reach imported memories: the byte of an imported memory object `p` covered by an active segment is
    the segment's byte (the defect repaired by 0ebafa6 made this false) -/
theorem imported_memory_gets_data (d : ModDesc) (r : Resolver) (w : World) (s : St) (hi : Initialised d w r s)
    (p a : Nat) (hp : p < w.mems.length) :
    cell s.1.mems p a = (cell w.mems p a).map fun b => lastCover (dataSegsAt d w r p) b a := by
  rw [hi.mem]; simp [memAfter, memPrior, hp]

/-- a new memory is zero except where segments put bytes -/
theorem defined_memory_zero_or_data (d : ModDesc) (r : Resolver) (w : World) (s : St) (hi : Initialised d w r s)
    (k a : Nat) (mm : Nat × Nat) (hk : d.mems[k]? = some mm) (ha : a < mm.1 * pageSize) :
    cell s.1.mems (w.mems.length + k) a = some (lastCover (dataSegsAt d w r (w.mems.length + k)) 0 a) := by
  have hn : ¬ (w.mems.length + k < w.mems.length) := by omega
  rw [hi.mem]; simp [memAfter, memPrior, hk, ha, hn]

/-- the table part agrees with C04's statement (`Model.slotSpec`): last covering element segment, else null -/
theorem lastCover_eq_slotSpec (segs : List ElemSeg) (k : Nat) :
    lastCover (segs.map fun s => (⟨s.offset, s.funcs.map some⟩ : Seg (Option Nat))) none k = slotSpec segs k := by
  unfold lastCover slotSpec
  rw [List.foldl_map]
  congr 1
  funext cur seg
  simp only [Seg.at, segAt, List.length_map]
  by_cases h : seg.offset ≤ k ∧ k < seg.offset + seg.funcs.length
  · have hlt : k - seg.offset < seg.funcs.length := by omega
    simp [h, List.getElem?_eq_getElem hlt]
  · simp [h]

/-- Two instances in one world (B instantiated after A; any modules, also the same one): whatever sequence of
    stores / grows / table writes / global writes runs on A, the memories and tables B allocated are unchanged (B's
    defined globals are fields of B's own struct, which no operation on A can name: an instance is a value here).
    Imported objects are shared by reference and are not covered. -/
theorem instances_disjoint (dA dB : ModDesc) (rA rB : Resolver) (w0 : World) (sA sB : St)
    (hA : Initialised dA w0 rA sA) (hrA : ResolverOK rA w0) (hB : Initialised dB sA.1 rB sB)
    (ops : List Op) (s' : St) (hops : runOps dA (sB.1, sA.2) ops = .val s') :
    (∀ p ∈ sB.2.mems, s'.1.mems[p]? = sB.1.mems[p]?) ∧ (∀ p ∈ sB.2.tables, s'.1.tables[p]? = sB.1.tables[p]?) ∧
    s'.2.mems = sA.2.mems ∧ s'.2.tables = sA.2.tables := by
  have fr := runOps_frame dA ops _ _ hops
  refine ⟨?_, ?_, fr.ptrs.2.2.2.1, fr.ptrs.2.2.2.2⟩
  · intro p hp
    apply fr.mems
    intro hin
    have h1 := reachMems_bound dA w0 rA sA hA hrA p hin
    have h2 := ownMems_fresh dB sA.1 rB sB hB p hp
    omega
  · intro p hp
    apply fr.tables
    intro hin
    have h1 := reachTables_bound dA w0 rA sA hA hrA p hin
    have h2 := ownTables_fresh dB sA.1 rB sB hB p hp
    omega

/-- … and conversely operations on B leave A's own objects alone, unless the embedder handed them to B as imports -/
theorem instances_disjoint_converse (dA dB : ModDesc) (rA rB : Resolver) (w0 : World) (sA sB : St)
    (hA : Initialised dA w0 rA sA) (hB : Initialised dB sA.1 rB sB)
    (hnoM : ∀ k p, rB.mem k = some p → p ∉ sA.2.mems) (hnoT : ∀ k p, rB.table k = some p → p ∉ sA.2.tables)
    (ops : List Op) (s' : St) (hops : runOps dB sB ops = .val s') :
    (∀ p ∈ sA.2.mems, s'.1.mems[p]? = sB.1.mems[p]?) ∧ (∀ p ∈ sA.2.tables, s'.1.tables[p]? = sB.1.tables[p]?) := by
  have fr := runOps_frame dB ops _ _ hops
  constructor
  · intro p hp
    apply fr.mems
    intro hin
    unfold reachMems at hin
    rw [List.mem_append] at hin
    cases hin with
    | inl h =>
      rw [hB.memImp, List.mem_filterMap] at h
      obtain ⟨o, ho, hop⟩ := h
      rw [List.mem_map] at ho
      obtain ⟨k, _, hk⟩ := ho
      exact hnoM k p (by rw [hk]; simpa using hop) hp
    | inr h =>
      have h1 := ownMems_fresh dB sA.1 rB sB hB p h
      have h2 : p < sA.1.mems.length := by
        rw [hA.memCount]
        have := hp
        rw [hA.ownMems, List.mem_map] at this
        obtain ⟨k, hk, hkp⟩ := this
        simp at hk; omega
      omega
  · intro p hp
    apply fr.tables
    intro hin
    unfold reachTables at hin
    rw [List.mem_append] at hin
    cases hin with
    | inl h =>
      rw [hB.tabImp, List.mem_filterMap] at h
      obtain ⟨o, ho, hop⟩ := h
      rw [List.mem_map] at ho
      obtain ⟨k, _, hk⟩ := ho
      exact hnoT k p (by rw [hk]; simpa using hop) hp
    | inr h =>
      have h1 := ownTables_fresh dB sA.1 rB sB hB p h
      have h2 : p < sA.1.tables.length := by
        rw [hA.tableCount]
        have := hp
        rw [hA.ownTables, List.mem_map] at this
        obtain ⟨k, hk, hkp⟩ := this
        simp at hk; omega
      omega

/-! ## non-vacuity: a module importing its memory (a 16-byte object here) with two overlapping active segments, an
    imported global as offset, an imported table with two element segments, three globals and a start function -/

def demoW : World := { mems := [Array.replicate 16 7], tables := [Array.replicate 4 none], globals := [2] }
def demoR : Resolver := { mem := fun _ => some 0, table := fun _ => some 0, global := fun _ => some 0 }
def demoD : ModDesc :=
  { memImports := 1, tableImports := 1, globalImports := 1
    globals := [.const 5, .globalGet 0]
    datas := [⟨false, 0, .const 1, [10, 11, 12]⟩, ⟨true, 0, .const 0, [99]⟩, ⟨false, 0, .globalGet 0, [20, 21]⟩]
    elems := [⟨0, .const 0, [3, 4]⟩, ⟨0, .const 1, [5]⟩]
    hasStart := true }

example : Fits demoD demoW demoR := by
  refine ⟨?_, ?_, ?_⟩
  · intro seg hs hp
    simp [demoD] at hs
    rcases hs with rfl | rfl | rfl
    · exact ⟨0, 1, 16, rfl, rfl, rfl, by decide⟩
    · simp at hp
    · exact ⟨0, 2, 16, rfl, rfl, rfl, by decide⟩
  · intro seg hs
    simp [demoD] at hs
    rcases hs with rfl | rfl
    · exact ⟨0, 0, 4, rfl, rfl, rfl, by decide⟩
    · exact ⟨0, 1, 4, rfl, rfl, rfl, by decide⟩
  · intro e he
    simp [demoD] at he
    rcases he with rfl | rfl
    · exact ⟨5, rfl⟩
    · exact ⟨2, rfl⟩

/-- the specified bytes: 7 (prior), 10, then the later segment wins at 2 and 3, then prior again -/
example : (List.range 6).map (memAfter demoD demoW demoR 0) = [some 7, some 10, some 20, some 21, some 7, some 7] := by decide
example : (List.range 4).map (tableAfter demoD demoW demoR 0) = [some (some 3), some (some 5), some none, some none] := by decide

/-- the model computes them, binds the imports, evaluates the globals, and enters the start function once -/
example : (instantiate demoD demoR (fun s => .val (s.1, { s.2 with globals := s.2.globals ++ [1000] })) demoW).map'
      (fun s => ((List.range 6).map (cell s.1.mems 0), (List.range 4).map (cell s.1.tables 0), s.2.globals, s.2.memImp)) =
    .val ([some 7, some 10, some 20, some 21, some 7, some 7], [some (some 3), some (some 5), some none, some none], [5, 2, 1000], [some 0]) := by
  rfl

/-- an active segment that does not fit is undefined behaviour in the emitted C (no bounds check), a trap in the spec -/
example : instantiate { demoD with datas := [⟨false, 0, .const 15, [1, 2]⟩] } demoR .val demoW = .ub .outOfBounds := by rfl

end W2c2Verif.Props.C06
