/-
  C06 (memory initialisation as EMITTED, every data segment mode) — `Props/C06.lean` proves `instantiate_refines_spec` over
  `Model.Inst.initMemories`, a hand model of what `<module>InitMemories` does.  Here that model is tied to the emitter itself:

    Gen.InitMem          regenerated on every run from `wasmCWriteInitMemories` (memory loop + data segment loop, as guarded
                         leaves in source order), `wasmCWriteDataSegmentsFromSection` (the `datasegments` blob),
                         `wasmCWriteDataSegments` (the `d<k>` arrays) and `wasmMemoryAllocate` (descriptor fields)
    Model.InitMem        interprets those lists: the token text per mode, the statements in it, what they do

  Theorems (all for EVERY module description — any number of memories and of passive/active/empty/all-zero/overlapping
  segments — and every mode `arrays | gnu-ld | sectcreate1 | sectcreate2`):
    initmemories_every_mode            the emitted InitMemories = `Model.Inst.initMemories`
    instantiate_every_mode_refines_spec  hence the instance is the specified one (`Initialised`) in every mode
    loads_are_the_active_segments      the LOAD_DATA statements are, in order, exactly one per ACTIVE segment (none is skipped,
                                       whatever its bytes) and each copies exactly that segment's bytes to its memory/offset
    blob_offset_is_prefix_sum          in the external modes segment k is read at `ds + Σ_{j<k} |segment j|` (ALL earlier
                                       segments, passive ones included) and those blob bytes are the segment's bytes
    segment_pointer_is_segment         `d<k> = ds + …` (emitted for EVERY segment in the external modes) points at that segment's bytes
    alloc_pages_is_declared_minimum    `wasmMemoryAllocate`: pages = declared minimum for shared and non-shared memories
    new_memory_has_minimum_pages       the memory object a defined memory gets has `min` pages, shared or not
-/
import W2c2Verif.Lemmas.InitMemLoads

namespace W2c2Verif.Props.C06Init
open W2c2Verif Model Model.Inst Model.InitMem Spec.Inst Gen.InitMem

/-- For a fresh instance struct (no memory allocated yet: what `Instantiate` passes), the emitted InitMemories of every data
    segment mode does what `Model.Inst.initMemories` does. -/
theorem initmemories_every_mode (mode : Mode) (d : ModDesc) (s : St) (hs : s.2.mems = []) :
    initMemoriesE mode d s = initMemories d s :=
  initMemoriesE_eq mode d s hs

/-- `instantiate_refines_spec` for the emitted text of every data segment mode: whenever the specification's instantiation
    does not trap, "imports; the emitted InitMemories; tables; globals; start" yields the specified state and then runs the
    start function (if any) on it. -/
theorem instantiate_every_mode_refines_spec (mode : Mode) (d : ModDesc) (r : Resolver) (w : World) (start : St → Out St)
    (hf : Fits d w r) :
    ∃ s, Initialised d w r s ∧
      (initAllE mode d r w >>= fun s => if d.hasStart then start s else .val s) = (if d.hasStart then start s else .val s) := by
  obtain ⟨s, hs, hi⟩ := initAll_spec d r w hf
  exact ⟨s, hi, by rw [initAllE_eq, hs]; rfl⟩

/-- the text always is a sequence of known statements -/
theorem text_parses (mode : Mode) (d : ModDesc) : parse (render mode d) = some (emittedOf mode d) := parse_render mode d

/-! ## which LOAD_DATA statements there are, and what each copies -/

/-- In every mode the LOAD_DATA statements of the emitted InitMemories are, in module order, exactly one per ACTIVE data
    segment — no active segment is left out, whatever its bytes (all zero, empty, …), no passive one is loaded — and each
    copies exactly its segment's bytes to the segment's memory at the segment's offset expression. -/
theorem loads_are_the_active_segments (mode : Mode) (d : ModDesc) :
    (emittedOf mode d).filterMap (loadOf (sourcesOf mode d)) =
      (d.datas.filter fun seg => !seg.passive).map fun seg => (seg.mem, seg.offset, seg.bytes) := by
  unfold emittedOf
  rw [List.filterMap_append, memsEmitted_no_load]
  exact segs_loads mode d d.datas [] rfl

/-- External modes (`-d gnu-ld`, `sectcreate1`, `sectcreate2`): the statements emitted for the active segment `seg` of
    `d.datas = pre ++ seg :: post` are `d<|pre|> = ds + Σ|pre|;` and `LOAD_DATA(mem, offset, ds + Σ|pre|, |seg|);` — the sum runs over
    ALL earlier segments, passive ones included — and the `|seg|` bytes of the `datasegments` blob at that offset are the
    segment's bytes. -/
theorem blob_offset_is_prefix_sum (mode : Mode) (hm : mode ≠ .arrays) (d : ModDesc) (pre : List DataSeg) (seg : DataSeg)
    (post : List DataSeg) (hd : d.datas = pre ++ seg :: post) (hp : seg.passive = false) :
    emittedOf mode d = memsEmitted d.memImports d.memShared 0 d.mems ++ segsEmitted mode 0 0 pre ++
        Emitted.ptrInit pre.length ((pre.map (·.bytes.length)).sum) ::
        Emitted.loadBlob seg.mem seg.offset ((pre.map (·.bytes.length)).sum) seg.bytes.length ::
        segsEmitted mode (pre.length + 1) ((pre.map (·.bytes.length)).sum + seg.bytes.length) post ∧
    (((sourcesOf mode d).blob.drop ((pre.map (·.bytes.length)).sum)).take seg.bytes.length) = seg.bytes := by
  have hsum : bytesLen pre = (pre.map (·.bytes.length)).sum := by
    unfold bytesLen
    induction pre with
    | nil => rfl
    | cons x xs ih => simp [List.flatMap_cons]
  have hext : isExt mode = true := by cases mode <;> simp_all [isExt]
  constructor
  · unfold emittedOf
    rw [hd, segsEmitted_append]
    simp only [segsEmitted, segEmitted, loadEmitted, hp, hext, Nat.zero_add, hsum, List.append_assoc]
    rfl
  · have hblob : (sourcesOf mode d).blob = pre.flatMap (·.bytes) ++ seg.bytes ++ post.flatMap (·.bytes) := by
      simp [sourcesOf, blobOf_gen, hd, List.flatMap_append, List.flatMap_cons]
    rw [← hsum, hblob]
    exact drop_take_mid _ _ _

/-- External modes: the pointer variable of EVERY segment `seg` of `d.datas = pre ++ seg :: post` (passive or active: `memory.init` may
    name either) is set to `ds + Σ|pre|`, and the `|seg|` bytes there are the segment's bytes (what `memory.init` will copy); in
    arrays mode `d<k>` is the array holding exactly the segment's bytes. -/
theorem segment_pointer_is_segment (mode : Mode) (d : ModDesc) (pre : List DataSeg) (seg : DataSeg) (post : List DataSeg)
    (hd : d.datas = pre ++ seg :: post) :
    ptrTarget (sourcesOf mode d) (bytesLen pre) seg.bytes.length = some seg.bytes ∧
    ((sourcesOf mode d).arrays[pre.length]?).join = some seg.bytes ∧
    (mode ≠ .arrays → Emitted.ptrInit pre.length (bytesLen pre) ∈ emittedOf mode d) := by
  have hblob : (sourcesOf mode d).blob = pre.flatMap (·.bytes) ++ seg.bytes ++ post.flatMap (·.bytes) := by
    simp [sourcesOf, blobOf_gen, hd, List.flatMap_append, List.flatMap_cons]
  refine ⟨?_, by simp [sourcesOf, arraysOf_gen, hd], ?_⟩
  · unfold ptrTarget
    have hfit : bytesLen pre + seg.bytes.length ≤ (sourcesOf mode d).blob.length := by rw [hblob]; simp [bytesLen]
    simp only [hfit, ↓reduceIte, Option.some.injEq]
    rw [hblob]; exact drop_take_mid _ _ _
  · intro hm
    have hext : isExt mode = true := by cases mode <;> simp_all [isExt]
    unfold emittedOf
    rw [hd, segsEmitted_append]
    simp [segsEmitted, segEmitted, hext]

/-! ## allocation -/

/-- `wasmMemoryAllocate(initial, max, shared)` as regenerated: the page count of the new memory is the declared MINIMUM whether
    or not the memory is shared; `maxPages` and `shared` are the arguments; only `size` (the bytes requested from calloc)
    uses the maximum for a shared memory. -/
theorem alloc_pages_is_declared_minimum (initial max shared : Nat) :
    ∃ f, allocDesc initial max shared = some f ∧ f .pages = initial ∧ f .maxPages = max ∧ f .shared = shared ∧
      f .size = ((if shared ≠ 0 then max else initial) * 65536) % 4294967296 :=
  let ⟨f, h1, h2, h3, h4, h5, _⟩ := allocDesc_gen initial max shared
  ⟨f, h1, h2, h3, h4, h5⟩

/-- the block backing a memory covers its pages whenever the U32 size computation does not wrap (declared maximum below 65536
    pages; the wrap at exactly 65536 is C18's recorded `alloc_size_wraps_counterexample`) -/
theorem alloc_block_covers_pages (initial max shared : Nat) (hle : initial ≤ max) (hmax : max < 65536) :
    ∃ f, allocDesc initial max shared = some f ∧ f .pages * 65536 ≤ f .size := by
  obtain ⟨f, h1, h2, _, _, h5, _⟩ := allocDesc_gen initial max shared
  refine ⟨f, h1, ?_⟩
  rw [h2, h5]
  split <;> omega

/-- the memory object the k-th DEFINED memory of a fresh instance gets from the emitted InitMemories has exactly the declared
    minimum number of pages (zero bytes, before segments are copied), shared or not -/
theorem new_memory_has_minimum_pages (d : ModDesc) (src : Sources) (s : St) (hs : s.2.mems = []) :
    foldM' (exec d src) s (memsEmitted d.memImports d.memShared 0 d.mems) =
      .val ({ s.1 with mems := s.1.mems ++ d.mems.map fun mm => Array.replicate (mm.1 * pageSize) (0 : UInt8) },
            { s.2 with mems := (List.range d.mems.length).map (s.1.mems.length + ·) }) := by
  have h := exec_mems d src d.mems s
  rw [hs] at h
  simpa using h

/-! ## non-vacuity: two memories (one shared), a passive segment between active ones, an all-zero and an empty segment -/

def demoD : ModDesc :=
  { memImports := 1, mems := [(1, 2), (1, 4)], memShared := [false, true],
    datas := [⟨false, 0, .const 1, [10, 11, 12]⟩, ⟨true, 0, .const 0, [99, 98]⟩, ⟨false, 0, .const 2, [0, 0]⟩, ⟨false, 1, .const 7, []⟩,
              ⟨false, 1, .const 0, [5]⟩] }

example : emittedOf .gnuld demoD =
    [.alloc 1 1 2, .allocShared 2 1 4, .ptrInit 0 0, .loadBlob 0 (.const 1) 0 3, .ptrInit 1 3, .ptrInit 2 5, .loadBlob 0 (.const 2) 5 2,
     .ptrInit 3 7, .loadBlob 1 (.const 7) 7 0, .ptrInit 4 7, .loadBlob 1 (.const 0) 7 1] := by decide
example : emittedOf .arrays demoD =
    [.alloc 1 1 2, .allocShared 2 1 4, .loadArr 0 (.const 1) 0 3, .loadArr 0 (.const 2) 2 2, .loadArr 1 (.const 7) 3 0, .loadArr 1 (.const 0) 4 1] := by
  decide
example : (sourcesOf .gnuld demoD).blob = [10, 11, 12, 99, 98, 0, 0, 5] := by decide
/-- the later all-zero segment overwrites the earlier non-zero bytes of the imported (pre-filled) memory, in both kinds of mode -/
def demoI : ModDesc := { demoD with mems := [], memShared := [], datas := demoD.datas.take 3 }
example : ((initMemoriesE .sectcreate1 demoI (({ mems := [Array.replicate 8 7] } : World), { memImp := [some 0] })).map'
      fun s => (List.range 6).map (cell s.1.mems 0)) = .val [some 7, some 10, some 0, some 0, some 7, some 7] := by decide
example : ((initMemoriesE .arrays demoI (({ mems := [Array.replicate 8 7] } : World), { memImp := [some 0] })).map'
      fun s => (List.range 6).map (cell s.1.mems 0)) = .val [some 7, some 10, some 0, some 0, some 7, some 7] := by decide

end W2c2Verif.Props.C06Init
