/-
  Props.C05Grow — memory.grow and the CONTENTS of linear memory (C05: "grown memory reads as zero, the old
  contents are kept"; also used by C18).  About the REGENERATED `Gen.growSteps` (wasmMemoryGrow of
  /repo/w2c2/w2c2_base.h, flattened in source order, including `realloc(memory->data, <size>)` and
  `memset(<block> + <offset>, 0, <length>)` with their U32 size/offset/length expressions) under the content
  semantics of Model/GrowContent.lean: the block returned by `realloc` keeps the old bytes and is ARBITRARY
  (`junk`, universally quantified) beyond them.
-/
import W2c2Verif.Model.GrowContent

namespace W2c2Verif.Props.C05Grow
open W2c2Verif W2c2Verif.Model W2c2Verif.Model.Grow W2c2Verif.Model.GrowContent

/-- the U32 byte counts of the real code do not wrap under the maximum guard (`maxPages ≤ 65535`, which the
    reader enforces): `pages * 65536 < 2^32` for every `pages ≤ maxPages` -/
theorem byte_size_no_wrap (pages max : Nat) (h : pages ≤ max) (hmax : max ≤ 65535) :
    pages * 65536 % 4294967296 = pages * 65536 := Nat.mod_eq_of_lt (by omega)

theorem exists_of_match {α : Type} {x : Option α} {P : α → Prop}
    (h : match x with | some p => P p | none => False) : ∃ p, x = some p ∧ P p := by
  cases x with
  | none => exact h.elim
  | some p => exact ⟨p, rfl, h⟩

/-- **Grown memory reads as zero, old contents are kept** (non-shared memory, realloc succeeds): for EVERY content
    `junk` that realloc may leave beyond the old bytes, a successful `memory.grow(delta)`, `delta > 0`, returns the
    old page count and ends with a block of exactly `newPages * 65536` bytes in which every byte below the old size
    is unchanged and every byte in `[oldSize, newSize)` is 0. -/
theorem grow_zeroes_new_pages (imm : Imm) (hns : imm.shared = false) (hok : imm.reallocFails = false)
    (hmax : imm.maxPages ≤ 65535) (junk : Nat → Nat) (st : CState) (hp : st.pend = none)
    (hcap : st.cur.cap = st.mem.pages * 65536) (delta : Nat) (hpos : 0 < delta)
    (hfit : st.mem.pages + delta ≤ imm.maxPages) :
    ∃ r, growC imm junk Gen.growSteps st delta = some r ∧ r.2 = st.mem.pages ∧
      r.1.mem.pages = st.mem.pages + delta ∧ r.1.mem.size = (st.mem.pages + delta) * 65536 ∧
      r.1.cur.cap = (st.mem.pages + delta) * 65536 ∧ r.1.pend = none ∧
      (∀ i, i < st.mem.pages * 65536 → r.1.cur.bytes i = st.cur.bytes i) ∧
      (∀ i, st.mem.pages * 65536 ≤ i → i < (st.mem.pages + delta) * 65536 → r.1.cur.bytes i = 0) := by
  obtain ⟨mem, cur, pend⟩ := st
  simp only at hp hcap hfit ⊢
  subst hp
  have hnp : (mem.pages + delta) % 4294967296 = mem.pages + delta := Nat.mod_eq_of_lt (by omega)
  have hns' : (mem.pages + delta) * 65536 % 4294967296 = (mem.pages + delta) * 65536 := Nat.mod_eq_of_lt (by omega)
  have hos : mem.pages * 65536 % 4294967296 = mem.pages * 65536 := Nat.mod_eq_of_lt (by omega)
  have hds : delta * 65536 % 4294967296 = delta * 65536 := Nat.mod_eq_of_lt (by omega)
  have hle : mem.pages ≤ imm.maxPages := by omega
  have hd0 : delta ≠ 0 := by omega
  have hpos2 : 0 < (mem.pages + delta) * 65536 := by omega
  have hinb : mem.pages * 65536 + delta * 65536 ≤ (mem.pages + delta) * 65536 := by omega
  apply exists_of_match
  simp [growC, runSeqC, actC, act, Gen.growSteps, MExpr.eval, setReg, initRegs, readFld, writeFld, hns, hok, b2n,
    hnp, hns', hos, hds, hfit, hd0, hpos2, hinb, hle, memsetBlock, hcap]
  constructor
  · intro i hi
    rw [if_neg (by omega), if_pos hi]
  · intro i h1 h2 h3
    have := h3 h1
    omega

/-- a grow that does not fit (or whose page count wraps), or `grow(0)`, leaves descriptor AND contents untouched -/
theorem grow_failure_keeps_contents (imm : Imm) (hns : imm.shared = false) (hmax : imm.maxPages ≤ 65535)
    (junk : Nat → Nat) (st : CState) (hp : st.pend = none) (hle : st.mem.pages ≤ imm.maxPages) (delta : Nat)
    (hd : delta < 4294967296) (hno : delta = 0 ∨ imm.maxPages < st.mem.pages + delta) :
    ∃ r, growC imm junk Gen.growSteps st delta = some r ∧
      r.2 = (specGrow imm st.mem.pages delta).1 ∧ r.1.mem = st.mem ∧ r.1.cur.cap = st.cur.cap ∧
      r.1.cur.bytes = st.cur.bytes := by
  obtain ⟨mem, cur, pend⟩ := st
  simp only at hp hle hno ⊢
  subst hp
  apply exists_of_match
  rcases hno with h0 | hbig
  · subst h0
    have hp : mem.pages % 4294967296 = mem.pages := Nat.mod_eq_of_lt (by omega)
    simp [growC, runSeqC, actC, act, Gen.growSteps, MExpr.eval, setReg, initRegs, readFld, writeFld, hns, b2n, hp,
      hle, specGrow]
  · by_cases hw : mem.pages + delta < 4294967296
    · have hnp : (mem.pages + delta) % 4294967296 = mem.pages + delta := Nat.mod_eq_of_lt hw
      have h1 : ¬ (mem.pages + delta ≤ imm.maxPages) := by omega
      simp [growC, runSeqC, actC, act, Gen.growSteps, MExpr.eval, setReg, initRegs, readFld, writeFld, hns, b2n, hnp,
        h1, specGrow, FAIL]
    · have hnp : ¬ (mem.pages ≤ (mem.pages + delta) % 4294967296) := by omega
      have h1 : ¬ (mem.pages + delta ≤ imm.maxPages) := by omega
      simp [growC, runSeqC, actC, act, Gen.growSteps, MExpr.eval, setReg, initRegs, readFld, writeFld, hns, b2n, hnp,
        h1, specGrow, FAIL]

/-- when realloc fails the grow fails and nothing changes -/
theorem grow_realloc_failure_keeps_contents (imm : Imm) (hns : imm.shared = false) (hf : imm.reallocFails = true)
    (hmax : imm.maxPages ≤ 65535) (junk : Nat → Nat) (st : CState) (hp : st.pend = none) (delta : Nat)
    (hpos : 0 < delta) (hfit : st.mem.pages + delta ≤ imm.maxPages) :
    ∃ r, growC imm junk Gen.growSteps st delta = some r ∧ r.2 = FAIL ∧ r.1.mem = st.mem ∧
      r.1.cur.cap = st.cur.cap ∧ r.1.cur.bytes = st.cur.bytes := by
  obtain ⟨mem, cur, pend⟩ := st
  simp only at hp hfit ⊢
  subst hp
  have hnp : (mem.pages + delta) % 4294967296 = mem.pages + delta := Nat.mod_eq_of_lt (by omega)
  have hns' : (mem.pages + delta) * 65536 % 4294967296 = (mem.pages + delta) * 65536 := Nat.mod_eq_of_lt (by omega)
  have hd0 : delta ≠ 0 := by omega
  have hpos2 : 0 < (mem.pages + delta) * 65536 := by omega
  apply exists_of_match
  simp [growC, runSeqC, actC, act, Gen.growSteps, MExpr.eval, setReg, initRegs, readFld, writeFld, hns, hf, b2n,
    hnp, hns', hfit, hd0, hpos2, FAIL]

/-- **Shared memory**: wasmMemoryGrow never reallocates, never calls memset and never stores `data` — the contents of
    the block (allocated once, with `calloc`, at the maximum size: `Gen.allocInit`) are exactly what they were, for
    every outcome of the grow.  Hence a byte of a newly exposed page is 0 unless some store has written it before. -/
theorem grow_shared_keeps_contents (imm : Imm) (hs : imm.shared = true) (hmax : imm.maxPages ≤ 65535)
    (junk : Nat → Nat) (st : CState) (hle : st.mem.pages ≤ imm.maxPages) (delta : Nat) (hd : delta < 4294967296) :
    ∃ r, growC imm junk Gen.growSteps st delta = some r ∧ r.2 = (specGrow imm st.mem.pages delta).1 ∧
      r.1.mem.pages = (specGrow imm st.mem.pages delta).2 ∧ r.1.mem.data = st.mem.data ∧
      r.1.cur.cap = st.cur.cap ∧ r.1.cur.bytes = st.cur.bytes ∧ r.1.pend = st.pend := by
  obtain ⟨mem, cur, pend⟩ := st
  simp only at hle ⊢
  apply exists_of_match
  by_cases hfit : mem.pages + delta ≤ imm.maxPages
  · have hnp : (mem.pages + delta) % 4294967296 = mem.pages + delta := Nat.mod_eq_of_lt (by omega)
    by_cases hd0 : delta = 0
    · subst hd0
      have hp : mem.pages % 4294967296 = mem.pages := Nat.mod_eq_of_lt (by omega)
      simp [growC, runSeqC, actC, act, Gen.growSteps, MExpr.eval, setReg, initRegs, readFld, writeFld, hs, b2n, hp,
        hle, specGrow]
    · simp [growC, runSeqC, actC, act, Gen.growSteps, MExpr.eval, setReg, initRegs, readFld, writeFld, hs, b2n, hnp,
        hfit, hd0, specGrow]
  · by_cases hw : mem.pages + delta < 4294967296
    · have hnp : (mem.pages + delta) % 4294967296 = mem.pages + delta := Nat.mod_eq_of_lt hw
      simp [growC, runSeqC, actC, act, Gen.growSteps, MExpr.eval, setReg, initRegs, readFld, writeFld, hs, b2n, hnp,
        hfit, specGrow, FAIL]
    · have hnp : ¬ (mem.pages ≤ (mem.pages + delta) % 4294967296) := by omega
      simp [growC, runSeqC, actC, act, Gen.growSteps, MExpr.eval, setReg, initRegs, readFld, writeFld, hs, b2n, hnp,
        hfit, specGrow, FAIL]

/-- the hypotheses of `grow_zeroes_new_pages` are satisfiable, and its conclusion is not vacuous: 1 page of 0x11,
    realloc leaves 0xAA behind, grow by 2 -/
example : ∃ r, growC { maxPages := 10, shared := false } (fun _ => 0xAA) Gen.growSteps
      { mem := ⟨1, 65536, 1⟩, cur := ⟨65536, fun _ => 0x11⟩ } 2 = some r ∧ r.2 = 1 ∧ r.1.mem.pages = 3 ∧
      r.1.cur.bytes 65535 = 0x11 ∧ r.1.cur.bytes 65536 = 0 ∧ r.1.cur.bytes 196607 = 0 := by
  obtain ⟨r, h1, h2, h3, _, _, _, h7, h8⟩ := grow_zeroes_new_pages { maxPages := 10, shared := false } rfl rfl
    (by decide) (fun _ => 0xAA) { mem := ⟨1, 65536, 1⟩, cur := ⟨65536, fun _ => 0x11⟩ } rfl rfl 2 (by decide) (by decide)
  exact ⟨r, h1, h2, h3, h7 65535 (by decide), h8 65536 (by decide) (by decide), h8 196607 (by decide) (by decide)⟩

end W2c2Verif.Props.C05Grow
