/-
  Props.C10Writer — the implementation-file writer reads the function-ID list it is handed only inside that list
  (C10: no out-of-bounds read for any option combination, in particular with `-r REFERENCE`; the same bound is what
  C09's `partition_exact` assumes when it clamps file ranges to the LIST length).

  `Gen.ImplWriter` is regenerated from c.c on every run: which quantity `wasmCWriteImplementationFile` clamps its end index
  to (`clampBound`), the shape of the end-index computation and of the loop of `wasmCWriteFunctionImplementations` (an
  unexpected shape is an EXTRACT-FAIL).  `idRange` below is that computation with the C integer types explicit
  (U32 sum wraps), parameterised by the bound.

  * `writer_clamps_to_its_own_list`  — finite-table theorem: the regenerated bound IS the list length;
  * `writer_reads_within_list`       — for EVERY start index, functions-per-file value, list length and module function
                                       count: every index the loop reads is `< length` of the list it indexes;
  * `split_lists_shorter_than_module`— with a reference module the two lists together have exactly the module's function
                                       count, so each is at most that long (strictly shorter as soon as the other is non-empty);
  * `module_count_bound_overreads`   — the obligation is not vacuous: clamping to the module's function count reads
                                       past a shorter list (this is seeded change C10/5).
-/
import W2c2Verif.Gen.ImplWriter
import W2c2Verif.Lemmas.PoolSplit

namespace W2c2Verif.Props.C10
open W2c2Verif.Gen.ImplWriter

/-- `[start, end)` of ID-list indices wasmCWriteImplementationFile hands to the loop, `none` when it returns early.
    `len` = functionIDs.length, `cnt` = module->functions.count, both as U32. -/
def idRange (b : Bound) (start fpf len cnt : Nat) : Option (Nat × Nat) :=
  let end0 := (start + fpf) % 4294967296
  let bound := match b with
    | .idsLength => len
    | .moduleFunctionCount => cnt
  let end1 := if end0 > bound then bound else end0
  if start > end1 then none else some (start, end1)

/-- the indices `functionIDs.functionIDs[i]` read by the loop `for (i = start; i < end; i++)` -/
def idReads (b : Bound) (start fpf len cnt : Nat) : List Nat :=
  match idRange b start fpf len cnt with
  | none => []
  | some (s, e) => List.range' s (e - s)

/-- Finite-table theorem over the regenerated `Gen.ImplWriter`: the bound in the current c.c is the length of the
    list the function was given. -/
theorem writer_clamps_to_its_own_list : clampBound = .idsLength ∧ mainFileBound = .idsLength ∧ loopShapeChecked = true := by
  decide

/-- **No read beyond the ID list**, for all arguments (also those no run produces). -/
theorem writer_reads_within_list (start fpf len cnt k : Nat) (hk : k ∈ idReads clampBound start fpf len cnt) :
    k < len := by
  have hb : clampBound = .idsLength := writer_clamps_to_its_own_list.1
  rw [hb] at hk
  simp only [idReads, idRange] at hk
  by_cases h1 : (start + fpf) % 4294967296 > len
  · by_cases h2 : start > len
    · simp [h1, h2] at hk
    · simp only [h1, h2, if_true, if_false] at hk
      rw [List.mem_range'_1] at hk; omega
  · by_cases h2 : start > (start + fpf) % 4294967296
    · simp [h1, h2] at hk
    · simp only [h1, h2, if_false] at hk
      rw [List.mem_range'_1] at hk; omega

/-- single-file output: `0 .. staticFunctionIDs.length` of the static list -/
theorem main_file_reads_within_list (len k : Nat) (hk : k ∈ List.range' 0 (len - 0)) : k < len := by
  rw [List.mem_range'_1] at hk; omega

open W2c2Verif.Model.Split in
/-- With `-r`: static and dynamic list partition the module's IDs, so each list is at most as long as the module's
    function count — and strictly shorter as soon as the other one is non-empty, which is when a bound taken from the
    module would over-read. -/
theorem split_lists_shorter_than_module (ids ref : List FnId) :
    (split ids ref).1.length + (split ids ref).2.length = ids.length ∧
    ((split ids ref).2 ≠ [] → (split ids ref).1.length < ids.length) ∧
    ((split ids ref).1 ≠ [] → (split ids ref).2.length < ids.length) := by
  have h := (W2c2Verif.Model.Split.split_perm ids ref).length_eq
  rw [List.length_append] at h
  refine ⟨h, ?_, ?_⟩
  · intro hne
    have : 0 < (split ids ref).2.length := List.length_pos_iff.mpr hne
    omega
  · intro hne
    have : 0 < (split ids ref).1.length := List.length_pos_iff.mpr hne
    omega

/-- Clamping to the module's function count is wrong: a 4-function module whose static list has 2 entries, default
    `-f` (= 4): indices 2 and 3 are read from a 2-element list. -/
theorem module_count_bound_overreads : idReads .moduleFunctionCount 0 4 2 4 = [0, 1, 2, 3] ∧ ¬ (3 < 2) := by
  decide

example : idReads .idsLength 0 4 2 4 = [0, 1] := by decide
example : idReads .idsLength 4294967295 2 4294967295 4294967295 = [] := by decide   -- U32 wrap: "empty file", nothing read

end W2c2Verif.Props.C10
