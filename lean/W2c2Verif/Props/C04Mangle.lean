/-
  Props.C04Mangle — "a call invokes the function the specification designates" for IMPORTS: the generated C names an imported
  function (memory, table, global) by the identifier `escModule(module) ++ "__" ++ esc(field)` (escModule = leading-digit escape, then esc) and an export by `<module>_` ++ esc(name);
  the embedder defines / the resolver is asked for exactly these names, so two imports are told apart iff the mangling is
  injective.  The escaping rule is NOT written here: `Gen.Mangle` is regenerated on every run from BOTH copies of the routine
  in c.c (wasmCWriteFileEscaped, wasmCWriteStringEscaped; tools/extract/gen_mangle.py), `Model.Mangle` interprets it.

  * `escape_injective`: distinct names have distinct escaped texts (the escape character is itself escaped, an escape is always
    escape character + exactly two upper-case hex digits, a run of n underscores is written as 2n-1 underscores).
  * `export_symbol_injective`: distinct export names give distinct `<module>_<name>` symbols.
  * `Props.C04Ident.import_symbol_is_identifier` (own module): the symbol of every import (ANY module and field byte strings) is a C identifier — non-empty, first
    character a letter or an underscore, the rest alphanumeric or underscores.  The module part goes through
    `wasmCWrite{File,String}EscapedModule` (regenerated: `Gen.Mangle.moduleLeadEscape`), which escapes a leading digit; on a tree without
    that wrapper (before /repo ed458af: `(import "1env" "f")` gave `U32 1env__f(void*,U32);`) the regenerated rule makes this theorem fail.
  * `mangle_injective`: distinct (module, field) pairs give distinct identifiers, for module names of the form `ModOK`
    (no two consecutive underscores, no underscore at the end: "env", "wasi_snapshot_preview1", "GOT.mem", "" …; ANY field).
  * `mangle_underscore_boundary_counterexample`: WITHOUT that hypothesis the pinned code is not injective — RECORDED FINDING
    `import-mangling-underscore-at-module-field-boundary` (known_findings.txt, witness
    tools/corpus/C04/import-mangling-underscore-boundary.json): ("a_","b") and ("a","_b") are both `a___b`; a call of the second
    import runs the host function of the first.  (Repair would change the public symbol naming scheme.)
  * `render_escape_is_regenerated` / `render_importName_is_regenerated`: the hand-written `Model.escapeName` / `importName` of
    Model/Render.lean — what the emit-tokens correspondence compares with the real output at every call site — is this rule.
  * `importName_injective`: the same on the rendered strings.
-/
import W2c2Verif.Lemmas.Mangle
import W2c2Verif.Model.Render

namespace W2c2Verif.Props.C04Mangle
open W2c2Verif Model Model.Mangle Gen.Mangle Lemmas.Mangle

theorem escape_injective (a b : List UInt8) (h : escL none a = escL none b) : a = b := escL_inj a b none h

theorem export_symbol_injective (modName : List Nat) (a b : List UInt8)
    (h : modName ++ [95] ++ exportL a = modName ++ [95] ++ exportL b) : a = b :=
  escL_inj a b none (List.append_cancel_left h)

theorem mangle_injective (m f m' f' : List UInt8) (hm : ModOK m) (hm' : ModOK m')
    (h : mangleL m f = mangleL m' f') : m = m' ∧ f = f' := by
  unfold mangleL at h
  simp only [List.append_assoc] at h
  obtain ⟨e, hR⟩ := escMod_sep_inj m m' _ _ hm hm' h
  exact ⟨e, escL_inj f f' none hR⟩

/-- the pinned code maps two different imports to one identifier when underscores touch the module/field boundary -/
theorem mangle_underscore_boundary_counterexample :
    mangleL [97, 95] [98] = mangleL [97] [95, 98] ∧ (([97, 95], [98]) : List UInt8 × List UInt8) ≠ ([97], [95, 98]) := by decide

/-! ### the hand model used by emit-tokens is the regenerated rule -/

set_option maxRecDepth 200000 in
private theorem hex2_toList : ∀ n, n < 256 → (hex2 (UInt8.ofNat n)).toList = (hexL (UInt8.ofNat n)).map Char.ofNat := by decide

private theorem hex2_toList' (c : UInt8) : (hex2 c).toList = (hexL c).map Char.ofNat := by
  have := hex2_toList c.toNat c.toNat_lt
  rwa [UInt8.ofNat_toNat] at this

theorem render_escape_is_regenerated (bs : List UInt8) : (escapeName bs).toList = (escL none bs).map Char.ofNat := by
  unfold escapeName
  generalize (none : Option UInt8) = prev
  induction bs generalizing prev with
  | nil => simp [escapeAux, escL]
  | cons c rest ih =>
    simp only [escapeAux, escL, String.toList_append, List.map_append, ih]
    congr 1
    unfold piece
    by_cases hu : c.toNat = 95
    · have hu2 : c.toNat = underscore := hu
      rw [if_pos hu, if_pos hu2]
      by_cases hp : prev = some c
      · rw [if_pos hp, if_pos hp]; decide
      · rw [if_neg hp, if_neg hp, hu]; decide
    · have hu2 : ¬ c.toNat = underscore := hu
      rw [if_neg hu, if_neg hu2]
      have hk : ((c.toNat ≠ 88 && Model.isAlnum c) = true) ↔ keeps c = true := by
        simp [keeps, keepCond, atomHolds, escapeChar, Model.isAlnum, Mangle.isAlnum]
      by_cases hkk : keeps c = true
      · rw [if_pos (hk.mpr hkk), if_pos hkk]; simp
      · rw [if_neg (fun h => hkk (hk.mp h)), if_neg hkk, String.toList_append, hex2_toList']
        have hx : "X".toList = [Char.ofNat escapeChar] := by decide
        rw [hx]; rfl

theorem render_escapeModule_is_regenerated (m : List UInt8) : (escapeModule m).toList = (escModL m).map Char.ofNat := by
  cases m with
  | nil => rfl
  | cons c rest =>
    have hl : (moduleLeadEscape.any fun a => match a with | .digit => 48 ≤ c.toNat && c.toNat ≤ 57) = leads c := by
      unfold leads
      congr 1
    simp only [escapeModule, escModL, hl]
    by_cases h : leads c = true
    · simp only [h, if_true, String.toList_append, hex2_toList', render_escape_is_regenerated, List.map_append, List.map_cons, List.cons_append]
      have hx : "X".toList = [Char.ofNat escapeChar] := by decide
      rw [hx]; rfl
    · simp only [h]
      exact render_escape_is_regenerated (c :: rest)

theorem render_importName_is_regenerated (m f : List UInt8) : (importName (m, f)).toList = (mangleL m f).map Char.ofNat := by
  unfold importName mangleL
  simp only [String.toList_append, render_escape_is_regenerated, render_escapeModule_is_regenerated, List.map_append, separator]
  congr 1

private theorem code_lt (prev : Option UInt8) (bs : List UInt8) : ∀ x ∈ escL prev bs, x < 256 := by
  induction bs generalizing prev with
  | nil => simp [escL]
  | cons c rest ih =>
    intro x hx
    simp only [escL, List.mem_append] at hx
    rcases hx with hx | hx
    · have := c.toNat_lt
      rcases piece_cases prev c with ⟨_, ⟨h, _⟩ | ⟨h, _⟩⟩ | ⟨_, _, _, h⟩ | ⟨_, _, h⟩ <;> rw [h] at hx <;> simp [hexL, hexU] at hx
      · omega
      · omega
      · omega
      · rcases hx with rfl | rfl | rfl
        · omega
        · split <;> omega
        · split <;> omega
    · exact ih _ x hx

private theorem idChar_lt (x : Nat) (h : isIdChar x = true) : x < 256 := by
  simp [isIdChar, isIdStart] at h
  omega

private theorem ofNat_inj {n m : Nat} (hn : n < 256) (hm : m < 256) (h : Char.ofNat n = Char.ofNat m) : n = m := by
  have e : ∀ k, k < 256 → (Char.ofNat k).toNat = k := by
    intro k hk
    have : k.isValidChar := by left; omega
    simp [Char.ofNat, this, Char.ofNatAux, Char.toNat]
  rw [← e n hn, ← e m hm, h]

private theorem map_ofNat_inj : ∀ (a b : List Nat), (∀ x ∈ a, x < 256) → (∀ x ∈ b, x < 256) → a.map Char.ofNat = b.map Char.ofNat → a = b
  | [], [], _, _, _ => rfl
  | [], _ :: _, _, _, h => by simp at h
  | _ :: _, [], _, _, h => by simp at h
  | x :: a, y :: b, ha, hb, h => by
    simp only [List.map_cons, List.cons.injEq] at h
    have e := ofNat_inj (ha x (by simp)) (hb y (by simp)) h.1
    rw [e, map_ofNat_inj a b (fun z hz => ha z (by simp [hz])) (fun z hz => hb z (by simp [hz])) h.2]

/-- the identifiers the model renders (and emit-tokens finds in the real output) tell imports apart -/
theorem importName_injective (m f m' f' : List UInt8) (hm : ModOK m) (hm' : ModOK m')
    (h : importName (m, f) = importName (m', f')) : m = m' ∧ f = f' := by
  have h2 := congrArg String.toList h
  rw [render_importName_is_regenerated, render_importName_is_regenerated] at h2
  have lt : ∀ (a b : List UInt8), ∀ x ∈ mangleL a b, x < 256 := by
    intro a b x hx
    simp only [mangleL, List.mem_append, separator] at hx
    rcases hx with (hx | hx) | hx
    · exact idChar_lt x (escModL_idChars a x hx)
    · simp at hx; omega
    · exact code_lt _ _ x hx
  exact mangle_injective m f m' f' hm hm' (map_ofNat_inj _ _ (lt m f) (lt m' f') h2)

/-! ### non-vacuity -/
/-- "wasi_snapshot_preview1", "env", "", "GOT.mem" are accepted module names; "a_" and "a__b" are not -/
example : ModOK [119, 97, 115, 105, 95, 115, 110, 97, 112, 115, 104, 111, 116, 95, 112, 114, 101, 118, 105, 101, 119, 49] ∧ ModOK [101, 110, 118] ∧ ModOK [] ∧ ModOK [71, 79, 84, 46, 109, 101, 109] := by decide
example : ¬ ModOK [97, 95] ∧ ¬ ModOK [97, 95, 95, 98] := by decide
/-- "a.b" → aX2Eb, "aX2Eb" → aX582Eb, "X" → X58, "a__b" → a___b -/
example : escL none [97, 46, 98] = [97, 88, 50, 69, 98] ∧ escL none [97, 88, 50, 69, 98] = [97, 88, 53, 56, 50, 69, 98] ∧
    escL none [88] = [88, 53, 56] ∧ escL none [97, 95, 95, 98] = [97, 95, 95, 95, 98] := by decide
/-- ("env", "a.b") → env__aX2Eb -/
example : mangleL [101, 110, 118] [97, 46, 98] = [101, 110, 118, 95, 95, 97, 88, 50, 69, 98] := by decide

/-- ("1env", "f") → X31env__f; ("0", "") → X30__; ("9_", "_") → X39____ (the rest "_" is a name of its own) -/
example : mangleL [49, 101, 110, 118] [102] = [88, 51, 49, 101, 110, 118, 95, 95, 102] ∧ mangleL [48] [] = [88, 51, 48, 95, 95] ∧ mangleL [57, 95] [95] = [88, 51, 57, 95, 95, 95, 95] := by decide
example : ModOK [49, 101, 110, 118] ∧ ModOK [48] := by decide

end W2c2Verif.Props.C04Mangle
