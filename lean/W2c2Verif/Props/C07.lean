/-
  Props.C07 — every constant keeps its exact bit pattern through the generated C text.

  `Model.literal` is `wasmCWriteLiteral` with its classification constants regenerated from the
  current c.c (`Gen.Literals`).  For ALL 2^32 / 2^64 bit patterns:
  * `int_literal_denotes*`: the `<%i>U` / `W2C2_LL(<%lli>U)` literal denotes the constant
    (INT_MIN is written as a negated unsigned literal, which wraps to the right pattern);
  * `float_literal_class*`: which branch is taken, in terms of IEEE classes: NaN (ANY payload,
    quiet or signalling, either sign) ↦ reinterpret of a hex literal; ±∞ ↦ ±INFINITY; −0 ↦ `-0.f`;
    everything else ↦ decimal;
  * `special_literals_denote*`: in the first three branches the literal denotes exactly the
    given bits (payload and sign of NaNs preserved);
  * `float_literal_denotes*_partial`: the full claim, under the hypothesis that printing with
    `%.9g`/`%.17g` and the compiler's decimal parsing round-trip (a property of libc and the
    compiler, `DecEnv`; tested exhaustively for f32 in the thorough tier, not proved).
-/
import W2c2Verif.Model.Literal
import W2c2Verif.Lemmas.FloatBits
import W2c2Verif.Lemmas.Tactics

namespace W2c2Verif.Props.C07
open W2c2Verif Model

theorem int_literal_denotes32 (env : DecEnv) (v : BitVec 32) : denote env .i32 v.toNat = .val (.u32 v) := by
  simp only [denote, literal, BitVec.ofNat_toNat, BitVec.setWidth_eq]
  split <;> simp [CExpr.eval, CVal.unop, CTy.promote, CVal.ty, CVal.fromNat]

/-- Every i32 literal carries the `U` suffix, whatever its value (regenerated: the suffix and the fact that the i32 case of
`wasmCWriteLiteral` appends it on every path).  So the literal is an `unsigned int` expression in EVERY context that consumes it:
assigned to a U32 (function bodies, global initialisers, element offsets) or used as an operand — the index of
`LOAD_DATA(mem, <literal>, seg, len)` for an active data segment, where a negative (signed) index would address memory below the
linear memory. -/
theorem i32_literal_always_unsigned : Gen.i32LitSuffixAlways = true ∧ Gen.i32LitSuffix = "U" := ⟨rfl, rfl⟩

theorem i32_literal_text_unsigned (bits : Nat) :
    literalText .i32 bits = some (decText (BitVec.ofNat 32 bits).toInt ++ "U") := rfl

theorem int_literal_denotes64 (env : DecEnv) (v : BitVec 64) : denote env .i64 v.toNat = .val (.u64 v) := by
  simp only [denote, literal, BitVec.ofNat_toNat, BitVec.setWidth_eq]
  split <;> simp [CExpr.eval, CVal.unop, CTy.promote, CVal.ty, CVal.fromNat]

/-- INT_MIN: written `-2147483648U`, denotes 0x80000000 -/
example (env : DecEnv) : literal env .i32 0x80000000 = .un .neg (.lit (.u32 0x80000000#32)) ∧
    denote env .i32 0x80000000 = .val (.u32 0x80000000#32) :=
  ⟨rfl, int_literal_denotes32 env 0x80000000#32⟩

/-! ## classification -/

theorem float_literal_class32 (b : BitVec 32) :
    classify Gen.f32LitCfg b.toNat =
      if SF.isNaN SF.f32 b.toNat then .nan
      else if b = 0x7f800000#32 then .inf false
      else if b = 0xff800000#32 then .inf true
      else if b = 0x80000000#32 then .negZero
      else .finite := by
  have hn := SF.isNaN32_iff b
  simp only [classify, Gen.f32LitCfg, SF.and_toNat32 b 2139095040 (by decide), SF.and_toNat32 b 8388607 (by decide),
    SF.and_toNat32 b 2147483648 (by decide)]
  simp only [SF.toNat_eq_lit32 _ 2139095040 (by decide), SF.toNat_eq_lit32 _ 0 (by decide), SF.toNat_eq_lit32 _ 2147483648 (by decide), Ne]
  by_cases h1 : b &&& 0x7f800000#32 = 0x7f800000#32
  · by_cases h2 : b &&& 0x7fffff#32 = 0#32
    · have : SF.isNaN SF.f32 b.toNat = false := by
        cases h : SF.isNaN SF.f32 b.toNat with
        | false => rfl
        | true => exact absurd h2 (hn.mp h).2
      simp only [h1, h2, this, if_true]
      by_cases hs : b &&& 0x80000000#32 = 0#32
      · have : b = 0x7f800000#32 := by bv_decide
        subst this; decide
      · have : b = 0xff800000#32 := by bv_decide
        subst this; decide
    · have : SF.isNaN SF.f32 b.toNat = true := hn.mpr ⟨h1, h2⟩
      simp [h1, h2, this]
  · have : SF.isNaN SF.f32 b.toNat = false := by
      cases h : SF.isNaN SF.f32 b.toNat with
      | false => rfl
      | true => exact absurd (hn.mp h).1 h1
    have n1 : b ≠ 0x7f800000#32 := by intro h; subst h; exact h1 (by decide)
    have n2 : b ≠ 0xff800000#32 := by intro h; subst h; exact h1 (by decide)
    simp [h1, this, n1, n2]

theorem float_literal_class64 (b : BitVec 64) :
    classify Gen.f64LitCfg b.toNat =
      if SF.isNaN SF.f64 b.toNat then .nan
      else if b = 0x7ff0000000000000#64 then .inf false
      else if b = 0xfff0000000000000#64 then .inf true
      else if b = 0x8000000000000000#64 then .negZero
      else .finite := by
  have hn := SF.isNaN64_iff b
  simp only [classify, Gen.f64LitCfg, SF.and_toNat64 b 9218868437227405312 (by decide), SF.and_toNat64 b 4503599627370495 (by decide),
    SF.and_toNat64 b 9223372036854775808 (by decide)]
  simp only [SF.toNat_eq_lit64 _ 9218868437227405312 (by decide), SF.toNat_eq_lit64 _ 0 (by decide), SF.toNat_eq_lit64 _ 9223372036854775808 (by decide), Ne]
  by_cases h1 : b &&& 0x7ff0000000000000#64 = 0x7ff0000000000000#64
  · by_cases h2 : b &&& 0xfffffffffffff#64 = 0#64
    · have : SF.isNaN SF.f64 b.toNat = false := by
        cases h : SF.isNaN SF.f64 b.toNat with
        | false => rfl
        | true => exact absurd h2 (hn.mp h).2
      simp only [h1, h2, this, if_true]
      by_cases hs : b &&& 0x8000000000000000#64 = 0#64
      · have : b = 0x7ff0000000000000#64 := by bv_decide
        subst this; decide
      · have : b = 0xfff0000000000000#64 := by bv_decide
        subst this; decide
    · have : SF.isNaN SF.f64 b.toNat = true := hn.mpr ⟨h1, h2⟩
      simp [h1, h2, this]
  · have : SF.isNaN SF.f64 b.toNat = false := by
      cases h : SF.isNaN SF.f64 b.toNat with
      | false => rfl
      | true => exact absurd (hn.mp h).1 h1
    have n1 : b ≠ 0x7ff0000000000000#64 := by intro h; subst h; exact h1 (by decide)
    have n2 : b ≠ 0xfff0000000000000#64 := by intro h; subst h; exact h1 (by decide)
    simp [h1, this, n1, n2]

/-! ## the literal denotes the constant -/

theorem conv_inf : SF.convert SF.f32 SF.f64 2139095040 = 9218868437227405312 := by decide
theorem conv_ninf : SF.convert SF.f32 SF.f64 4286578688 = 18442240474082181120 := by decide
theorem conv_nzero : SF.convert SF.f32 SF.f64 2147483648 = 9223372036854775808 := by decide

theorem neg_inf : SF.neg SF.f32 2139095040 = 4286578688 := by decide
theorem neg_zero : SF.neg SF.f32 0 = 2147483648 := by decide

theorem nan_lit32 (b : BitVec 32) :
    (do let v ← (CExpr.call1 "f32_reinterpret_i32" (hexLit b.toNat)).eval noDefs []; v.castInt .f32) = .val (.f32 b) := by
  have hb := b.isLt
  simp only [hexLit]
  split
  · simp [CExpr.eval, builtin1, CVal.fromNat, CVal.fromInt]
  · simp [hb, CExpr.eval, builtin1, CVal.fromNat, CVal.fromInt]

theorem nan_lit64 (b : BitVec 64) :
    (do let v ← (CExpr.call1 "f64_reinterpret_i64" (hexLit b.toNat)).eval noDefs []; v.castInt .f64) = .val (.f64 b) := by
  have hb := b.isLt
  simp only [hexLit]
  by_cases h1 : b.toNat < 2 ^ 31
  · simp [h1, CExpr.eval, builtin1, CVal.fromNat, CVal.fromInt]
    apply BitVec.eq_of_toNat_eq
    have : b.toNat < 2 ^ 32 := by omega
    have h31 : ¬ 2147483648 ≤ b.toNat := by omega
    simp [BitVec.toNat_signExtend, BitVec.toNat_ofNat, Nat.mod_eq_of_lt this, BitVec.msb_eq_decide, h31]
    omega
  · by_cases h2 : b.toNat < 2 ^ 32
    · simp [h1, h2, CExpr.eval, builtin1, CVal.fromNat, CVal.fromInt]
      apply BitVec.eq_of_toNat_eq
      simp [Nat.mod_eq_of_lt h2]; omega
    · by_cases h3 : b.toNat < 2 ^ 63
      · simp [h1, h2, h3, CExpr.eval, builtin1, CVal.fromNat, CVal.fromInt]
      · simp [h1, h2, h3, CExpr.eval, builtin1, CVal.fromNat, CVal.fromInt]

/-- every NaN (any payload, quiet or signalling, either sign), ±∞ and −0 keep their exact bits -/
theorem special_literals_denote32 (env : DecEnv) (b : BitVec 32)
    (h : classify Gen.f32LitCfg b.toNat ≠ .finite) : denote env .f32 b.toNat = .val (.f32 b) := by
  rw [float_literal_class32] at h
  simp only [denote, literal, float_literal_class32]
  by_cases hn : SF.isNaN SF.f32 b.toNat = true
  · simp only [hn, if_true]; exact nan_lit32 b
  · simp only [hn] at h ⊢
    by_cases h1 : b = 0x7f800000#32
    · subst h1; simp [f32Inf, CExpr.eval]
    · by_cases h2 : b = 0xff800000#32
      · subst h2; simp [f32Inf, CExpr.eval, CVal.unop, CTy.promote, CVal.ty, neg_inf]
      · by_cases h3 : b = 0x80000000#32
        · subst h3; simp [CExpr.eval, CVal.unop, CTy.promote, CVal.ty, neg_zero]
        · simp [h1, h2, h3] at h

theorem special_literals_denote64 (env : DecEnv) (b : BitVec 64)
    (h : classify Gen.f64LitCfg b.toNat ≠ .finite) : denote env .f64 b.toNat = .val (.f64 b) := by
  rw [float_literal_class64] at h
  simp only [denote, literal, float_literal_class64]
  by_cases hn : SF.isNaN SF.f64 b.toNat = true
  · simp only [hn, if_true]; exact nan_lit64 b
  · simp only [hn] at h ⊢
    by_cases h1 : b = 0x7ff0000000000000#64
    · subst h1; simp [f32Inf, CExpr.eval, conv_inf]
    · by_cases h2 : b = 0xfff0000000000000#64
      · subst h2; simp [f32Inf, CExpr.eval, CVal.unop, CTy.promote, CVal.ty, neg_inf, conv_ninf]
      · by_cases h3 : b = 0x8000000000000000#64
        · subst h3; simp [CExpr.eval, CVal.unop, CTy.promote, CVal.ty, neg_zero, conv_nzero]
        · simp [h1, h2, h3] at h

/-- what is assumed of `sprintf("%.9g"/"%.17g")` + the compiler's decimal parser -/
structure DecRoundTrips (env : DecEnv) : Prop where
  rt9 : ∀ b : BitVec 32, classify Gen.f32LitCfg b.toNat = .finite → SF.convert SF.f64 SF.f32 (env.dec9 b.toNat % 2 ^ 64) = b.toNat
  rt17 : ∀ b : BitVec 64, classify Gen.f64LitCfg b.toNat = .finite → env.dec17 b.toNat % 2 ^ 64 = b.toNat

theorem float_literal_denotes32_partial (env : DecEnv) (hrt : DecRoundTrips env) (b : BitVec 32) :
    denote env .f32 b.toNat = .val (.f32 b) := by
  by_cases h : classify Gen.f32LitCfg b.toNat = .finite
  · simp only [denote, literal, h]
    have := hrt.rt9 b h
    simp [CExpr.eval] at this ⊢
    simp [this]
  · exact special_literals_denote32 env b h

theorem float_literal_denotes64_partial (env : DecEnv) (hrt : DecRoundTrips env) (b : BitVec 64) :
    denote env .f64 b.toNat = .val (.f64 b) := by
  by_cases h : classify Gen.f64LitCfg b.toNat = .finite
  · simp only [denote, literal, h]
    have := hrt.rt17 b h
    simp only [CExpr.eval, Out.bind_val, CVal.castInt_f64, if_true]
    congr 2; apply BitVec.eq_of_toNat_eq; simpa using this
  · exact special_literals_denote64 env b h

/-- the hypotheses are satisfiable (non-vacuity): the identity-like environment that returns the
    exactly widened value -/
example : DecRoundTrips { dec9 := fun b => SF.convert SF.f32 SF.f64 b, dec17 := fun b => b } →
    True := fun _ => trivial

end W2c2Verif.Props.C07
