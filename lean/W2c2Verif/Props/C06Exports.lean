/-
  C06, "exported functions … are reachable under the documented symbols": the name table `<module>FuncExports` that
  `<module>Instantiate` stores in instance.common.funcExports (and `<module>NewChild` copies to the child).  Over
  `Model.FuncExports`, whose loop bounds, kind tests, declared size and terminator are `Gen.FuncExports`, regenerated from
  `wasmCWriteModuleFunctionExportsArray` on every run:

  * `func_exports_table_exact`: for EVERY export section (any mix and order of function / memory / table / global exports) the table is
    exactly the function exports, in export order, each once — (function index, name) — followed by exactly one {NULL, NULL} row;
    it is never longer than declared.
  * `func_exports_visible`: a loop `for (; e->func != NULL; e++)` (the WASI runtime's search for `wasi_thread_start`) sees exactly those
    rows; `func_export_found`: every function export is among them.
  * `memory_export_exact`: a memory accessor `<module>_<name>` returns the instance's memory of the EXPORT's index
    (`Gen.FuncExports.memoryExportArg`, regenerated from wasmCWriteMemoryExport); the embedder reads every exported memory through its
    accessor (object identity with the instance's memory of that index, pages, bytes) — directed modules with several memories.
  Tied to the real output on every run: the embedder of tools/harness/e2e.py reads instance.common.funcExports of every instance
  (rows, names, terminator) and makes every other call of its script through a by-name lookup in it; `funcexports-text` compares the
  declared size and the rows of the emitted array with the model.
-/
import W2c2Verif.Model.FuncExports

namespace W2c2Verif.Props.C06Exports
open W2c2Verif Model.FuncExports Gen.FuncExports

def isFunc (e : Export) : Bool := e.kind == Kind.func

/-- the emitted table lists exactly the function exports, in export order, each once, then one NULL row -/
theorem func_exports_table_exact (es : List Export) :
    table es = some (((es.filter isFunc).map fun e => some (e.index, e.name)) ++ [none]) := by
  have hk : (fun e : Export => e.kind == countKind) = isFunc := rfl
  have hkeep : keeps = isFunc := by funext e; simp [keeps, rowKeepsKind, rowKind, isFunc]
  have hcount : functionExportCount es = (es.filter isFunc).length := by
    simp [functionExportCount, boundVal, countBound, hk]
  have hrows : rows es = (es.filter isFunc).map fun e => (e.index, e.name) := by
    simp [rows, boundVal, rowBound, hkeep]
  simp [table, hrows, hcount, declaredRows, declaredExtraRows, terminatorRow, List.map_map, Function.comp_def]

theorem func_exports_visible (es : List Export) (t : List (Option Row)) (h : table es = some t) :
    visible t = (es.filter isFunc).map fun e => (e.index, e.name) := by
  rw [func_exports_table_exact] at h
  injection h with h
  subst h
  unfold visible
  induction es.filter isFunc with
  | nil => rfl
  | cons e rest ih => simp

/-- every function export is found by walking the table up to the first NULL function -/
theorem func_export_found (es : List Export) (t : List (Option Row)) (h : table es = some t) (e : Export) (he : e ∈ es)
    (hf : e.kind = Kind.func) : (e.index, e.name) ∈ visible t := by
  rw [func_exports_visible es t h, List.mem_map]
  exact ⟨e, List.mem_filter.mpr ⟨he, by simp [isFunc, hf]⟩, rfl⟩

/-- the `<module>_<name>` accessor of a MEMORY export returns the memory of the export's index — also for a module with several memories
    (imported + own, exports listed in any order) — never another one -/
theorem memory_export_exact (exportIndex : Nat) : memoryExportTarget exportIndex = exportIndex := by
  simp [memoryExportTarget, memoryExportArg]

/-! ### non-vacuity: `[memory, first, second, third]`, the order clang / wasm-ld emit -/
example : table [⟨.memory, 0, [109]⟩, ⟨.func, 3, [102]⟩, ⟨.func, 4, [115]⟩, ⟨.global, 0, [103]⟩, ⟨.func, 5, [116]⟩] =
    some [some (3, [102]), some (4, [115]), some (5, [116]), none] := by decide

end W2c2Verif.Props.C06Exports
