/-
  Spec.BinarySections — the WebAssembly binary grammar of the sections that carry names, constant expressions and
  byte ranges (spec §5.5 "Modules": §5.5.5 import, §5.5.9 global, §5.5.10 export, §5.5.12 element, §5.5.13 code,
  §5.5.14 data; §5.4.9 "Expressions"; §5.2.4 "Names"; §5.3 "Types"), as relations in the style of `Spec.Binary`.
  Written from the specification (release 2.0: the bulk-memory and reference-types forms of data and element
  segments are part of the grammar); nothing here mentions the reader.

  Every `u32`/`s32`/`s64` may be padded (`ULeb`/`SLeb`).  Where the decoded module of w2c2 keeps a byte range of the
  file verbatim (constant expressions, function bodies), the relation exposes the bytes this particular encoding
  uses for that range as an extra index ("located" encodings: `Located`, `CodeLoc`), so that a statement about the
  reader can name them.
-/
import W2c2Verif.Spec.Binary

namespace W2c2Verif.Spec.Binary

/-! ### names and byte vectors (§5.2.4, §5.1.3) -/

/-- name ::= b*:vec(byte)        vec(byte) ::= n:u32 (b:byte)^n
    (the side condition "b* is UTF-8" is a validity matter of names; byte vectors have none) -/
inductive EncName : List UInt8 → List UInt8 → Prop
  | mk {nm nsz : List UInt8} (h : ULeb 32 nm.length nsz) : EncName nm (nsz ++ nm)

/-! ### global types (§5.3.10) -/

structure GlobTy where
  ty : VT
  mutable : Bool
  deriving DecidableEq, Repr

/-- mut ::= 0x00 (const) | 0x01 (var) -/
def mutByte (m : Bool) : UInt8 := if m then 0x01 else 0x00

/-- globaltype ::= t:valtype m:mut -/
def EncGlobalType (gt : GlobTy) (b : List UInt8) : Prop := b = [gt.ty.byte, mutByte gt.mutable]

/-! ### constant expressions (§5.4.9; the constant instructions of §3.3.10 / 3.4.12) -/

/-- The constant instructions: `t.const c`, `global.get x`, and (2.0) `ref.null t`, `ref.func x`.  Floating-point
    immediates are their 4 / 8 little-endian bytes. -/
inductive CInstr
  | i32const (v : Int)
  | i64const (v : Int)
  | f32const (bits : List UInt8)
  | f64const (bits : List UInt8)
  | globalGet (x : Nat)
  | refNull (t : UInt8)
  | refFunc (x : Nat)
  deriving DecidableEq, Repr

/-- 0x41 n:i32 | 0x42 n:i64 | 0x43 z:f32 | 0x44 z:f64 | 0x23 x:globalidx | 0xD0 t:reftype | 0xD2 x:funcidx
    (`i32`/`i64` immediates are `s32`/`s64`: any sign-extending padding) -/
inductive EncCInstr : CInstr → List UInt8 → Prop
  | i32const {v : Int} {b : List UInt8} (h : SLeb 32 v b) : EncCInstr (.i32const v) (0x41 :: b)
  | i64const {v : Int} {b : List UInt8} (h : SLeb 64 v b) : EncCInstr (.i64const v) (0x42 :: b)
  | f32const {bits : List UInt8} (h : bits.length = 4) : EncCInstr (.f32const bits) (0x43 :: bits)
  | f64const {bits : List UInt8} (h : bits.length = 8) : EncCInstr (.f64const bits) (0x44 :: bits)
  | globalGet {x : Nat} {b : List UInt8} (h : ULeb 32 x b) : EncCInstr (.globalGet x) (0x23 :: b)
  | refNull (t : UInt8) : EncCInstr (.refNull t) [0xD0, t]
  | refFunc {x : Nat} {b : List UInt8} (h : ULeb 32 x b) : EncCInstr (.refFunc x) (0xD2 :: b)

/-- expr ::= (in:instr)* 0x0B -/
inductive EncExpr : List CInstr → List UInt8 → Prop
  | mk {is : List CInstr} {body : List UInt8} (h : EncSeq EncCInstr is body) : EncExpr is (body ++ [0x0B])

/-- An object together with the bytes its constant expression occupies in one particular encoding. -/
structure Located (α : Type) where
  val : α
  expr : List UInt8
  deriving DecidableEq, Repr

/-! ### imports (§5.5.5) -/

inductive ImpDesc
  | func (typeIdx : Nat)
  | table (l : Lim)
  | mem (l : Lim)
  | global (gt : GlobTy)
  deriving DecidableEq, Repr

structure Imp where
  module : List UInt8
  name : List UInt8
  desc : ImpDesc
  deriving DecidableEq, Repr

/-- importdesc ::= 0x00 x:typeidx | 0x01 tt:tabletype | 0x02 mt:memtype | 0x03 gt:globaltype -/
inductive EncImportDesc : ImpDesc → List UInt8 → Prop
  | func {x : Nat} {b : List UInt8} (h : ULeb 32 x b) : EncImportDesc (.func x) (0x00 :: b)
  | table {l : Lim} {b : List UInt8} (h : EncTableType l b) : EncImportDesc (.table l) (0x01 :: b)
  | mem {l : Lim} {b : List UInt8} (h : EncLimits l b) : EncImportDesc (.mem l) (0x02 :: b)
  | global {gt : GlobTy} {b : List UInt8} (h : EncGlobalType gt b) : EncImportDesc (.global gt) (0x03 :: b)

/-- import ::= mod:name nm:name d:importdesc -/
inductive EncImport : Imp → List UInt8 → Prop
  | mk {i : Imp} {a b c : List UInt8} (ha : EncName i.module a) (hb : EncName i.name b)
      (hc : EncImportDesc i.desc c) : EncImport i (a ++ (b ++ c))

/-! ### globals (§5.5.9) -/

structure Glob where
  type : GlobTy
  init : List CInstr
  deriving DecidableEq, Repr

/-- global ::= gt:globaltype e:expr          (`eb`: the bytes of `e`) -/
inductive EncGlobal : Glob → List UInt8 → List UInt8 → Prop
  | mk {g : Glob} {t eb : List UInt8} (ht : EncGlobalType g.type t) (he : EncExpr g.init eb) : EncGlobal g eb (t ++ eb)

/-! ### exports (§5.5.10) -/

inductive ExpDesc
  | func (x : Nat)
  | table (x : Nat)
  | mem (x : Nat)
  | global (x : Nat)
  deriving DecidableEq, Repr

/-- exportdesc ::= 0x00 x:funcidx | 0x01 x:tableidx | 0x02 x:memidx | 0x03 x:globalidx -/
def ExpDesc.kindByte : ExpDesc → UInt8
  | .func _ => 0x00 | .table _ => 0x01 | .mem _ => 0x02 | .global _ => 0x03

def ExpDesc.index : ExpDesc → Nat
  | .func x => x | .table x => x | .mem x => x | .global x => x

structure Exp where
  name : List UInt8
  desc : ExpDesc
  deriving DecidableEq, Repr

/-- export ::= nm:name d:exportdesc -/
inductive EncExport : Exp → List UInt8 → Prop
  | mk {e : Exp} {a b : List UInt8} (ha : EncName e.name a) (hb : ULeb 32 e.desc.index b) :
      EncExport e (a ++ (e.desc.kindByte :: b))

/-! ### element segments (§5.5.12, release 2.0: eight forms selected by a leading `u32`) -/

/-- Abstract element segments: mode (active in a table at an offset / passive / declarative), and the initialiser
    either as function indices (element kind `funcref`) or as constant expressions of a reference type. -/
inductive ElemSeg
  | activeFuncs (table : Nat) (offset : List CInstr) (funcs : List Nat)
  | passiveFuncs (funcs : List Nat)
  | declFuncs (funcs : List Nat)
  | activeExprs (table : Nat) (offset : List CInstr) (reftype : UInt8) (inits : List (List CInstr))
  | passiveExprs (reftype : UInt8) (inits : List (List CInstr))
  | declExprs (reftype : UInt8) (inits : List (List CInstr))
  deriving DecidableEq, Repr

/-- vec(funcidx) -/
abbrev EncFuncIdxs : List Nat → List UInt8 → Prop := EncVector (fun (i : Nat) b => ULeb 32 i b)

/-- vec(expr) -/
abbrev EncExprs : List (List CInstr) → List UInt8 → Prop := EncVector EncExpr

/-- reftype ::= 0x70 (funcref) | 0x6F (externref) -/
def IsRefType (t : UInt8) : Prop := t = 0x70 ∨ t = 0x6F

/-- `EncElem flag seg ob b`: `b` encodes `seg` in the form selected by `flag`; `ob` are the bytes of the offset
    expression (empty for passive and declarative segments).

      elem ::= 0:u32 e:expr y*:vec(funcidx)                        active, table 0, funcref
             | 1:u32 et:elemkind y*:vec(funcidx)                    passive            (elemkind ::= 0x00)
             | 2:u32 x:tableidx e:expr et:elemkind y*:vec(funcidx)  active, table x
             | 3:u32 et:elemkind y*:vec(funcidx)                    declarative
             | 4:u32 e:expr el*:vec(expr)                           active, table 0, funcref
             | 5:u32 et:reftype el*:vec(expr)                       passive
             | 6:u32 x:tableidx e:expr et:reftype el*:vec(expr)     active, table x
             | 7:u32 et:reftype el*:vec(expr)                       declarative

    An active segment of function indices for table 0 has two encodings (forms 0 and 2). -/
inductive EncElem : Nat → ElemSeg → List UInt8 → List UInt8 → Prop
  | f0 {e : List CInstr} {ys : List Nat} {f ob y : List UInt8} (hf : ULeb 32 0 f) (he : EncExpr e ob)
      (hy : EncFuncIdxs ys y) : EncElem 0 (.activeFuncs 0 e ys) ob (f ++ (ob ++ y))
  | f1 {ys : List Nat} {f y : List UInt8} (hf : ULeb 32 1 f) (hy : EncFuncIdxs ys y) :
      EncElem 1 (.passiveFuncs ys) [] (f ++ (0x00 :: y))
  | f2 {x : Nat} {e : List CInstr} {ys : List Nat} {f xb ob y : List UInt8} (hf : ULeb 32 2 f) (hx : ULeb 32 x xb)
      (he : EncExpr e ob) (hy : EncFuncIdxs ys y) : EncElem 2 (.activeFuncs x e ys) ob (f ++ (xb ++ (ob ++ (0x00 :: y))))
  | f3 {ys : List Nat} {f y : List UInt8} (hf : ULeb 32 3 f) (hy : EncFuncIdxs ys y) :
      EncElem 3 (.declFuncs ys) [] (f ++ (0x00 :: y))
  | f4 {e : List CInstr} {es : List (List CInstr)} {f ob y : List UInt8} (hf : ULeb 32 4 f) (he : EncExpr e ob)
      (hy : EncExprs es y) : EncElem 4 (.activeExprs 0 e 0x70 es) ob (f ++ (ob ++ y))
  | f5 {rt : UInt8} {es : List (List CInstr)} {f y : List UInt8} (hf : ULeb 32 5 f) (hrt : IsRefType rt)
      (hy : EncExprs es y) : EncElem 5 (.passiveExprs rt es) [] (f ++ (rt :: y))
  | f6 {x : Nat} {e : List CInstr} {rt : UInt8} {es : List (List CInstr)} {f xb ob y : List UInt8} (hf : ULeb 32 6 f)
      (hx : ULeb 32 x xb) (he : EncExpr e ob) (hrt : IsRefType rt) (hy : EncExprs es y) :
      EncElem 6 (.activeExprs x e rt es) ob (f ++ (xb ++ (ob ++ (rt :: y))))
  | f7 {rt : UInt8} {es : List (List CInstr)} {f y : List UInt8} (hf : ULeb 32 7 f) (hrt : IsRefType rt)
      (hy : EncExprs es y) : EncElem 7 (.declExprs rt es) [] (f ++ (rt :: y))

/-- An element segment with the choices of one encoding that matter downstream: the form and the offset bytes. -/
structure ElemLoc where
  seg : ElemSeg
  flag : Nat
  expr : List UInt8
  deriving DecidableEq, Repr

/-! ### code (§5.5.13) -/

structure Locals where
  count : Nat
  ty : VT
  deriving DecidableEq, Repr

/-- locals ::= n:u32 t:valtype -/
inductive EncLocals : Locals → List UInt8 → Prop
  | mk {l : Locals} {c : List UInt8} (h : ULeb 32 l.count c) : EncLocals l (c ++ [l.ty.byte])

/-- A function body: the groups of locals and the bytes of `e:expr` (instruction sequence and final `end`).  The
    instruction grammar is the subject of the emitter's specification (C03, `emit_encoding_independent`); here the
    body is any byte string. -/
structure Code where
  locals : List Locals
  body : List UInt8
  deriving DecidableEq, Repr

/-- code ::= size:u32 code:func   (size = ||func||)        func ::= (t*)*:vec(locals) e:expr
    `sz`, `lb`: the bytes of the size field and of `vec(locals)` in this encoding. -/
inductive EncCode : Code → List UInt8 → List UInt8 → List UInt8 → Prop
  | mk {c : Code} {sz lb : List UInt8} (hl : EncVector EncLocals c.locals lb) (hs : ULeb 32 (lb ++ c.body).length sz) :
      EncCode c sz lb (sz ++ (lb ++ c.body))

structure CodeLoc where
  code : Code
  size : List UInt8
  locals : List UInt8
  deriving DecidableEq, Repr

/-! ### data segments (§5.5.14, release 2.0) -/

inductive DataSeg
  | active (mem : Nat) (offset : List CInstr) (bytes : List UInt8)
  | passive (bytes : List UInt8)
  deriving DecidableEq, Repr

/-- `EncData flag seg ob b`:

      data ::= 0:u32 e:expr b*:vec(byte)               active, memory 0
             | 1:u32 b*:vec(byte)                      passive
             | 2:u32 x:memidx e:expr b*:vec(byte)      active, memory x

    An active segment for memory 0 has two encodings (forms 0 and 2). -/
inductive EncData : Nat → DataSeg → List UInt8 → List UInt8 → Prop
  | f0 {e : List CInstr} {bs f ob v : List UInt8} (hf : ULeb 32 0 f) (he : EncExpr e ob) (hv : EncName bs v) :
      EncData 0 (.active 0 e bs) ob (f ++ (ob ++ v))
  | f1 {bs f v : List UInt8} (hf : ULeb 32 1 f) (hv : EncName bs v) : EncData 1 (.passive bs) [] (f ++ v)
  | f2 {x : Nat} {e : List CInstr} {bs f xb ob v : List UInt8} (hf : ULeb 32 2 f) (hx : ULeb 32 x xb)
      (he : EncExpr e ob) (hv : EncName bs v) : EncData 2 (.active x e bs) ob (f ++ (xb ++ (ob ++ v)))

structure DataLoc where
  seg : DataSeg
  flag : Nat
  expr : List UInt8
  deriving DecidableEq, Repr

/-! ### the name section (Appendix "Custom Sections", §7.4.1 "Name Section") -/

/-- the name of the name section: 'name' -/
def nameSectionNameBytes : List UInt8 := [0x6E, 0x61, 0x6D, 0x65]

/-- nameassoc ::= idx:u32 nm:name -/
inductive EncNameAssoc : Nat × List UInt8 → List UInt8 → Prop
  | mk {a : Nat × List UInt8} {ib nb : List UInt8} (hi : ULeb 32 a.1 ib) (hn : EncName a.2 nb) : EncNameAssoc a (ib ++ nb)

/-- A subsection of the name section: the function names (id 1, a name map), or any other subsection (module name 0,
    local names 2, and the ids later proposals add), whose content is left opaque. -/
inductive NameSub
  | funcNames (assocs : List (Nat × List UInt8))
  | other (id : UInt8) (content : List UInt8)
  deriving DecidableEq, Repr

/-- namesubsection_N(B) ::= N:byte size:u32 B   (size = ||B||)
    funcnamesubsec ::= namesubsection_1(namemap)          namemap ::= vec(nameassoc) -/
inductive EncNameSub : NameSub → List UInt8 → Prop
  | funcNames {as : List (Nat × List UInt8)} {p sz : List UInt8} (hp : EncVector EncNameAssoc as p)
      (hs : ULeb 32 p.length sz) : EncNameSub (.funcNames as) (0x01 :: (sz ++ p))
  | other {id : UInt8} {content sz : List UInt8} (hid : id ≠ 0x01) (hs : ULeb 32 content.length sz) :
      EncNameSub (.other id content) (id :: (sz ++ content))

/-! ### sections and modules (§5.5.2, §5.5.15, §5.5.16) -/

/-- A section with its content.  `names` is the custom section called 'name' seen as a sequence of subsections (the
    same bytes are also a `custom` section with opaque content).  (Located variants where the content keeps byte ranges; the code section also
    carries the bytes of its entry count, from which the offsets of the bodies are measured.) -/
inductive Sec
  | custom (name content : List UInt8)
  | names (subs : List NameSub)
  | type (tys : List FuncTy)
  | import (is : List Imp)
  | function (typeIdxs : List Nat)
  | table (ts : List Lim)
  | memory (ms : List Lim)
  | global (gs : List (Located Glob))
  | export (es : List Exp)
  | start (x : Nat)
  | element (es : List ElemLoc)
  | code (count : List UInt8) (cs : List CodeLoc)
  | data (ds : List DataLoc)
  | dataCount (n : Nat)

def Sec.id : Sec → UInt8
  | .custom _ _ => 0 | .names _ => 0 | .type _ => 1 | .import _ => 2 | .function _ => 3 | .table _ => 4 | .memory _ => 5
  | .global _ => 6 | .export _ => 7 | .start _ => 8 | .element _ => 9 | .code _ _ => 10 | .data _ => 11
  | .dataCount _ => 12

/-- The payload `B` of `section_N(B)`: custom ::= name byte*; namedata ::= n:name (n = 'name') subsection*; typesec … datasec ::= vec(…); start ::= x:funcidx;
    datacount ::= n:u32. -/
inductive EncPayload : Sec → List UInt8 → Prop
  | custom {nm content a : List UInt8} (h : EncName nm a) : EncPayload (.custom nm content) (a ++ content)
  | names {subs : List NameSub} {a body : List UInt8} (hn : EncName nameSectionNameBytes a)
      (hb : EncSeq EncNameSub subs body) : EncPayload (.names subs) (a ++ body)
  | type {tys : List FuncTy} {p : List UInt8} (h : EncVector EncFuncType tys p) : EncPayload (.type tys) p
  | import {is : List Imp} {p : List UInt8} (h : EncVector EncImport is p) : EncPayload (.import is) p
  | function {xs : List Nat} {p : List UInt8} (h : EncFuncIdxs xs p) : EncPayload (.function xs) p
  | table {ts : List Lim} {p : List UInt8} (h : EncVector EncTableType ts p) : EncPayload (.table ts) p
  | memory {ms : List Lim} {p : List UInt8} (h : EncVector EncLimits ms p) : EncPayload (.memory ms) p
  | global {gs : List (Located Glob)} {p : List UInt8} (h : EncVector (fun g b => EncGlobal g.val g.expr b) gs p) :
      EncPayload (.global gs) p
  | export {es : List Exp} {p : List UInt8} (h : EncVector EncExport es p) : EncPayload (.export es) p
  | start {x : Nat} {p : List UInt8} (h : ULeb 32 x p) : EncPayload (.start x) p
  | element {es : List ElemLoc} {p : List UInt8} (h : EncVector (fun s b => EncElem s.flag s.seg s.expr b) es p) :
      EncPayload (.element es) p
  | code {cs : List CodeLoc} {cnt body : List UInt8} (hc : ULeb 32 cs.length cnt)
      (hb : EncSeq (fun c b => EncCode c.code c.size c.locals b) cs body) : EncPayload (.code cnt cs) (cnt ++ body)
  | data {ds : List DataLoc} {p : List UInt8} (h : EncVector (fun s b => EncData s.flag s.seg s.expr b) ds p) :
      EncPayload (.data ds) p
  | dataCount {n : Nat} {p : List UInt8} (h : ULeb 32 n p) : EncPayload (.dataCount n) p

/-- section_N(B) ::= N:byte size:u32 cont:B      (size = ||B||) -/
inductive EncSec : Sec → List UInt8 → Prop
  | mk {s : Sec} {p sz : List UInt8} (hp : EncPayload s p) (hs : ULeb 32 p.length sz) : EncSec s (s.id :: (sz ++ p))

/-- The section sequence of a module (after magic and version).  The grammar fixes the relative order of the
    non-custom sections; this relation does not (it describes more streams than the grammar, which only makes the
    statements about it stronger). -/
abbrev EncSecs : List Sec → List UInt8 → Prop := EncSeq EncSec

end W2c2Verif.Spec.Binary
