/-!
  Spec.Futex — what the WebAssembly threads proposal requires of `memory.atomic.wait32/64` and
  `memory.atomic.notify`, independent of any implementation.

  * The instruction's effective address is the i32 address operand plus the memarg's static offset,
    computed without wrap-around (a 33-bit sum; out-of-bounds sums trap).
  * Every address has a queue of suspended waiters.  `wait` compares the cell at the effective
    address with the expected value while holding the queue's lock: different → return 1 ("not-equal")
    without suspending; equal → the agent is appended to the queue and suspends.  It returns 0 ("ok")
    when a `notify` removed it, 2 ("timed-out") when its timeout elapsed first (it then leaves the queue).
  * `notify a n` removes at most `n` waiters from the queue of `a`, only from that queue, and returns
    how many it removed; if it removed fewer than `n`, the queue of `a` is empty afterwards.
-/
namespace W2c2Verif.Spec.Futex

/-- effective address (no wrap-around) -/
def effectiveAddress (operand : BitVec 32) (offset : Nat) : Nat := operand.toNat + offset

/-- return codes of wait -/
inductive WaitResult | ok | notEqual | timedOut
  deriving DecidableEq, Repr

def WaitResult.code : WaitResult → Nat
  | .ok => 0 | .notEqual => 1 | .timedOut => 2

/-- What one `notify a n` call must have done, in terms of the queue of `a` at the moment the call
    took the lock (`queue`), the waiters it woke (`woken`) and its return value `ret`. -/
structure NotifyOk {W : Type} (queue woken : List W) (n ret : Nat) : Prop where
  only_queued : ∀ w ∈ woken, w ∈ queue
  each_once : woken.Nodup
  exact_count : ret = woken.length
  at_most : ret ≤ n
  none_lost : ret < n → ∀ w ∈ queue, w ∈ woken

end W2c2Verif.Spec.Futex
