/-
  Spec.Bulk — memory.fill / memory.copy / memory.init as the WebAssembly specification defines them: by reduction to
  single-byte stores (exec rules `memory.fill`, `memory.copy`, `memory.init`): out of bounds traps BEFORE anything is
  written; n = 0 does nothing; fill writes the byte at d and continues with d+1; copy goes FORWARD (byte s -> d, then
  d+1, s+1) when d ≤ s and BACKWARD (byte s+n-1 -> d+n-1 first) otherwise — that is what makes overlapping ranges come
  out right in both directions; init reads the data segment byte by byte.
  Here only the in-bounds part (the bounds test is the caller's: `Sim.concCopyS` etc.; w2c2 emits no bounds checks).
-/
import W2c2Verif.CSem.Mem

namespace W2c2Verif.Spec

/-- `memory.fill`: n bytes of value `v mod 256` from d upwards, one store at a time -/
def fillSteps (m : Mem) (d v : Nat) : Nat → Mem
  | 0 => m
  | n + 1 => fillSteps (m.wr d (BitVec.ofNat 8 v)) (d + 1) v n

/-- `memory.copy`, forward rule (d ≤ s): copy byte s to d, continue with d+1, s+1 -/
def copyFwd (m : Mem) (d s : Nat) : Nat → Mem
  | 0 => m
  | n + 1 => copyFwd (m.wr d (m.rd s)) (d + 1) (s + 1) n

/-- `memory.copy`, backward rule (d > s): copy byte s+n-1 to d+n-1, continue with n-1 -/
def copyBwd (m : Mem) (d s : Nat) : Nat → Mem
  | 0 => m
  | n + 1 => copyBwd (m.wr (d + n) (m.rd (s + n))) d s n

def copySteps (m : Mem) (d s n : Nat) : Mem := if d ≤ s then copyFwd m d s n else copyBwd m d s n

/-- `memory.init`: bytes s, s+1, … of the data segment to d, d+1, … -/
def initSteps (seg : List UInt8) (m : Mem) (d s : Nat) : Nat → Mem
  | 0 => m
  | n + 1 => initSteps seg (m.wr d (BitVec.ofNat 8 (seg.getD s 0).toNat)) (d + 1) (s + 1) n

end W2c2Verif.Spec

namespace W2c2Verif

/-! ## the libc contracts the runtime's bulk helpers rely on (trusted: C standard 7.24) -/

/-- libc `memset(data + d, v, n)` -/
def Mem.memset (m : Mem) (d v n : Nat) : Mem :=
  { m with bytes := fun i => if d ≤ i ∧ i < d + n then BitVec.ofNat 8 v else m.bytes i }

/-- libc `memmove(data + d, data + s, n)`: as if the n source bytes were first copied to a temporary -/
def Mem.memmove (m : Mem) (d s n : Nat) : Mem :=
  { m with bytes := fun i => if d ≤ i ∧ i < d + n then m.bytes (s + (i - d)) else m.bytes i }

/-- libc `memcpy(data + d, seg + s, n)` from a separate object -/
def Mem.memcpyFrom (m : Mem) (seg : List UInt8) (d s n : Nat) : Mem :=
  { m with bytes := fun i => if d ≤ i ∧ i < d + n then BitVec.ofNat 8 (seg.getD (s + (i - d)) 0).toNat else m.bytes i }

end W2c2Verif
