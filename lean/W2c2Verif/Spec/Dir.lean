/-
  Spec.Dir — POSIX directory streams (opendir / readdir / telldir / seekdir / rewinddir) over a
  fixed, unmodified directory, as far as `fd_readdir` of wasi/wasi.c relies on them.

  A directory is the list of its entries in stream order plus the value `loc i` that
  `telldir` returns when the stream is positioned before entry `i` (`i = entries.length`: at
  the end).  POSIX (readdir/telldir/seekdir, XSH): `seekdir(d, telldir(d))` restores the
  position; a `loc` not obtained from `telldir` leaves the position unspecified, and so are
  the results of later `readdir` calls.  The concrete `loc` values are file-system specific
  (tmpfs: small integers, ext4: hashes); the check validates the assumptions below on the
  real kernel for every generated directory (`dirspec` request of the harness).
-/
namespace W2c2Verif.Dir

structure Entry where
  name : List UInt8       -- d_name, without the terminating NUL
  ino : Nat               -- d_ino
  dtype : Nat             -- d_type (DT_*)
  /-- WASI file type that `lstat(dir/name)` + wasiFileTypeFromMode gives (`none`: lstat fails);
      only consulted when `d_type` does not determine the type -/
  lstat : Option Nat := none
  deriving DecidableEq, Repr

structure Dir where
  entries : List Entry
  loc : Nat → Int

/-- position of a directory stream -/
inductive Pos where
  | at (i : Nat)          -- before entry `i`
  | unspec                -- after `seekdir` with a value that `telldir` never returned
  deriving DecidableEq, Repr

def opendir (_ : Dir) : Pos := .at 0

def rewinddir (_ : Dir) (_ : Pos) : Pos := .at 0

/-- `readdir`: `none` = unspecified; `some (none, _)` = NULL (end of directory) -/
def readdir (d : Dir) : Pos → Option (Option Entry × Pos)
  | .at i => match d.entries[i]? with
    | some e => some (some e, .at (i + 1))
    | none => some (none, .at i)
  | .unspec => none

def telldir (d : Dir) : Pos → Option Int
  | .at i => some (d.loc i)
  | .unspec => none

/-- least index `≤ k` whose location is `l` -/
def seekIdx (loc : Nat → Int) (l : Int) : Nat → Option Nat
  | 0 => if loc 0 = l then some 0 else none
  | k + 1 => match seekIdx loc l k with
    | some i => some i
    | none => if loc (k + 1) = l then some (k + 1) else none

def seekdir (d : Dir) (l : Int) : Pos :=
  match seekIdx d.loc l d.entries.length with
  | some i => .at i
  | none => .unspec

/-- what POSIX + the file systems give for an unmodified directory: distinct positions have
    distinct locations; every location after the first entry is a positive `long` -/
structure LocOK (d : Dir) : Prop where
  inj : ∀ i j, i ≤ d.entries.length → j ≤ d.entries.length → d.loc i = d.loc j → i = j
  pos : ∀ i, 1 ≤ i → i ≤ d.entries.length → 0 < d.loc i
  fits : ∀ i, i ≤ d.entries.length → d.loc i < 9223372036854775808

theorem seekIdx_loc (loc : Nat → Int) (k : Nat)
    (inj : ∀ i j, i ≤ k → j ≤ k → loc i = loc j → i = j) (i : Nat) (hi : i ≤ k) :
    seekIdx loc (loc i) k = some i := by
  induction k with
  | zero =>
    have : i = 0 := by omega
    subst this; simp [seekIdx]
  | succ k ih =>
    unfold seekIdx
    by_cases hik : i ≤ k
    · rw [ih (fun a b ha hb => inj a b (by omega) (by omega)) hik]
    · have hi' : i = k + 1 := by omega
      subst hi'
      have hnone : seekIdx loc (loc (k + 1)) k = none := by
        -- no smaller index has this location
        have : ∀ m, m ≤ k → seekIdx loc (loc (k + 1)) m = none := by
          intro m hm
          induction m with
          | zero =>
            simp only [seekIdx]
            have : loc 0 ≠ loc (k + 1) := by
              intro h; have := inj 0 (k + 1) (by omega) (by omega) h; omega
            simp [this]
          | succ m ihm =>
            simp only [seekIdx, ihm (by omega)]
            have : loc (m + 1) ≠ loc (k + 1) := by
              intro h; have := inj (m + 1) (k + 1) (by omega) (by omega) h; omega
            simp [this]
        exact this k (Nat.le_refl k)
      simp [hnone]

/-- `seekdir(telldir position i)` restores position `i` -/
theorem seekdir_loc (d : Dir) (h : LocOK d) (i : Nat) (hi : i ≤ d.entries.length) :
    seekdir d (d.loc i) = .at i := by
  unfold seekdir
  rw [seekIdx_loc d.loc d.entries.length h.inj i hi]

end W2c2Verif.Dir
