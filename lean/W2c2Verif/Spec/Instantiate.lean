/-
  Spec.Instantiate — the state the WebAssembly specification defines after instantiation (before the start
  function runs), stated declaratively and independently of the order in which an implementation performs
  the steps:

  * imported memories / tables / globals ARE the objects the embedder supplied (shared by reference);
  * every defined memory is a new object of `min` pages, every defined table a new object of `min` slots;
  * a byte (slot) of an object holds the value given by the LAST active segment that covers it, else what it
    held before (zero / null for new objects, the prior content for imported ones);
  * every defined global holds the value of its constant initialiser (a literal or an imported global);
  * instantiation fails (traps) unless every active segment fits inside its target.

  Only the description types (`ModDesc`, `World`, `Resolver`) are shared with the model.
-/
import W2c2Verif.Model.Instantiate

namespace W2c2Verif.Spec.Inst
open W2c2Verif Model.Inst

structure Seg (α : Type) where
  offset : Nat
  items : List α

def Seg.at {α} (s : Seg α) (k : Nat) : Option α :=
  if s.offset ≤ k ∧ k < s.offset + s.items.length then s.items[k - s.offset]? else none

/-- the last segment covering `k` wins; without one the prior content stays -/
def lastCover {α} (segs : List (Seg α)) (prior : α) (k : Nat) : α :=
  segs.foldl (fun cur s => (s.at k).getD cur) prior

def importedGlobal (w : World) (r : Resolver) (k : Nat) : Option Nat := (r.global k).bind (w.globals[·]?)

/-- constant expressions may only refer to imported globals -/
def evalConst (d : ModDesc) (w : World) (r : Resolver) : ConstE → Option Nat
  | .const b => some b
  | .globalGet k => if k < d.globalImports then importedGlobal w r k else none

/-- the object that memory index `idx` of the new instance denotes -/
def memAddr (d : ModDesc) (w : World) (r : Resolver) (idx : Nat) : Option Nat :=
  if idx < d.memImports then r.mem idx
  else if idx - d.memImports < d.mems.length then some (w.mems.length + (idx - d.memImports)) else none

def tableAddr (d : ModDesc) (w : World) (r : Resolver) (idx : Nat) : Option Nat :=
  if idx < d.tableImports then r.table idx
  else if idx - d.tableImports < d.tables.length then some (w.tables.length + (idx - d.tableImports)) else none

/-- the active data segments aimed at object `p`, in module order, with evaluated offsets -/
def dataSegsAt (d : ModDesc) (w : World) (r : Resolver) (p : Nat) : List (Seg UInt8) :=
  d.datas.filterMap fun seg =>
    if seg.passive then none
    else if memAddr d w r seg.mem = some p then (evalConst d w r seg.offset).map (⟨·, seg.bytes⟩) else none

def elemSegsAt (d : ModDesc) (w : World) (r : Resolver) (p : Nat) : List (Seg (Option Nat)) :=
  d.elems.filterMap fun seg =>
    if tableAddr d w r seg.table = some p then (evalConst d w r seg.offset).map (⟨·, seg.funcs.map some⟩) else none

/-- objects before any segment is applied -/
def memPrior (d : ModDesc) (w : World) (p a : Nat) : Option UInt8 :=
  if p < w.mems.length then cell w.mems p a
  else match d.mems[p - w.mems.length]? with
    | some mm => if a < mm.1 * pageSize then some 0 else none
    | none => none

def tablePrior (d : ModDesc) (w : World) (p a : Nat) : Option (Option Nat) :=
  if p < w.tables.length then cell w.tables p a
  else match d.tables[p - w.tables.length]? with
    | some tt => if a < tt.1 then some none else none
    | none => none

def memAfter (d : ModDesc) (w : World) (r : Resolver) (p a : Nat) : Option UInt8 :=
  (memPrior d w p a).map fun b => lastCover (dataSegsAt d w r p) b a

def tableAfter (d : ModDesc) (w : World) (r : Resolver) (p a : Nat) : Option (Option Nat) :=
  (tablePrior d w p a).map fun b => lastCover (elemSegsAt d w r p) b a

def memSize (d : ModDesc) (w : World) (p : Nat) : Option Nat :=
  if p < w.mems.length then (w.mems[p]?).map (·.size) else (d.mems[p - w.mems.length]?).map (·.1 * pageSize)

def tableSize (d : ModDesc) (w : World) (p : Nat) : Option Nat :=
  if p < w.tables.length then (w.tables[p]?).map (·.size) else (d.tables[p - w.tables.length]?).map (·.1)

/-- instantiation does not trap: every active segment has a target, an offset, and fits -/
structure Fits (d : ModDesc) (w : World) (r : Resolver) : Prop where
  data : ∀ seg ∈ d.datas, seg.passive = false →
    ∃ p off sz, memAddr d w r seg.mem = some p ∧ evalConst d w r seg.offset = some off ∧ memSize d w p = some sz ∧ off + seg.bytes.length ≤ sz
  elem : ∀ seg ∈ d.elems,
    ∃ p off sz, tableAddr d w r seg.table = some p ∧ evalConst d w r seg.offset = some off ∧ tableSize d w p = some sz ∧ off + seg.funcs.length ≤ sz
  glob : ∀ e ∈ d.globals, ∃ v, evalConst d w r e = some v

/-- the specified post-instantiation state (before start) of a world/instance pair -/
structure Initialised (d : ModDesc) (w : World) (r : Resolver) (s : St) : Prop where
  memImp : s.2.memImp = (List.range d.memImports).map r.mem
  tabImp : s.2.tabImp = (List.range d.tableImports).map r.table
  globImp : s.2.globImp = (List.range d.globalImports).map r.global
  ownMems : s.2.mems = (List.range d.mems.length).map (w.mems.length + ·)
  ownTables : s.2.tables = (List.range d.tables.length).map (w.tables.length + ·)
  memCount : s.1.mems.length = w.mems.length + d.mems.length
  tableCount : s.1.tables.length = w.tables.length + d.tables.length
  mem : ∀ p a, cell s.1.mems p a = memAfter d w r p a
  table : ∀ p a, cell s.1.tables p a = tableAfter d w r p a
  globals : s.2.globals.map some = d.globals.map (evalConst d w r)
  hostGlobals : s.1.globals = w.globals

end W2c2Verif.Spec.Inst
