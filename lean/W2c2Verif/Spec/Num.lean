/-
  Spec.Num — WebAssembly numeric instructions as one function from mnemonic and operand
  values to an outcome (value or trap), written from the specification (Numerics section):
  integer operators from `Spec.Int`, floating-point operators from the exact soft-float `SF`
  (NaN results are canonical; an implementation is compared by NaN class), conversions with
  the trapping / saturating truncation rules.
-/
import W2c2Verif.Spec.Int
import W2c2Verif.CSem.Float

namespace W2c2Verif.Spec

inductive Val
  | i32 (v : BitVec 32) | i64 (v : BitVec 64) | f32 (b : BitVec 32) | f64 (b : BitVec 64)
  deriving DecidableEq, Repr, Inhabited

def Val.tyName : Val → String | .i32 _ => "i32" | .i64 _ => "i64" | .f32 _ => "f32" | .f64 _ => "f64"
def Val.bits : Val → Nat | .i32 v => v.toNat | .i64 v => v.toNat | .f32 v => v.toNat | .f64 v => v.toNat

/-- trapping truncation `trunc_{s,u}`: NaN → invalid conversion; ±∞ or out of range → integer overflow -/
def truncTrap (fmt : SF.Fmt) (N : Nat) (signed : Bool) (b : Nat) : Out (BitVec N) :=
  if SF.isNaN fmt b then .trap .invalidConversion else
  match SF.truncToInt fmt b with
  | none => .trap .intOverflow
  | some t =>
    let lo : Int := if signed then -(2 ^ (N - 1) : Int) else 0
    let hi : Int := if signed then (2 ^ (N - 1) : Int) - 1 else (2 ^ N : Int) - 1
    if lo ≤ t ∧ t ≤ hi then .val (BitVec.ofInt N t) else .trap .intOverflow

/-- saturating truncation `trunc_sat_{s,u}` -/
def truncSat (fmt : SF.Fmt) (N : Nat) (signed : Bool) (b : Nat) : BitVec N :=
  let lo : Int := if signed then -(2 ^ (N - 1) : Int) else 0
  let hi : Int := if signed then (2 ^ (N - 1) : Int) - 1 else (2 ^ N : Int) - 1
  if SF.isNaN fmt b then 0 else
  match SF.decode fmt b with
  | .inf s => BitVec.ofInt N (if s then lo else hi)
  | _ =>
    match SF.truncToInt fmt b with
    | none => 0
    | some t => BitVec.ofInt N (if t < lo then lo else if t > hi then hi else t)

def b32 (n : Nat) : BitVec 32 := BitVec.ofNat 32 n
def b64 (n : Nat) : BitVec 64 := BitVec.ofNat 64 n

def fbin32 (f : SF.Fmt → Nat → Nat → Nat) (a b : BitVec 32) : Out Val := .val (.f32 (b32 (f SF.f32 a.toNat b.toNat)))
def fbin64 (f : SF.Fmt → Nat → Nat → Nat) (a b : BitVec 64) : Out Val := .val (.f64 (b64 (f SF.f64 a.toNat b.toNat)))
def fun32 (f : SF.Fmt → Nat → Nat) (a : BitVec 32) : Out Val := .val (.f32 (b32 (f SF.f32 a.toNat)))
def fun64 (f : SF.Fmt → Nat → Nat) (a : BitVec 64) : Out Val := .val (.f64 (b64 (f SF.f64 a.toNat)))
def fcmp32 (f : SF.Fmt → Nat → Nat → Bool) (a b : BitVec 32) : Out Val := .val (.i32 (bool32 (f SF.f32 a.toNat b.toNat)))
def fcmp64 (f : SF.Fmt → Nat → Nat → Bool) (a b : BitVec 64) : Out Val := .val (.i32 (bool32 (f SF.f64 a.toNat b.toNat)))

def wrapI32 (o : Out (BitVec 32)) : Out Val := o >>= fun v => .val (.i32 v)
def wrapI64 (o : Out (BitVec 64)) : Out Val := o >>= fun v => .val (.i64 v)

def numOp (op : String) (args : List Val) : Out Val :=
  match op, args with
  -- i32
  | "i32.eqz", [.i32 a] => .val (.i32 (ieqz a))
  | "i32.eq", [.i32 a, .i32 b] => .val (.i32 (ieq a b)) | "i32.ne", [.i32 a, .i32 b] => .val (.i32 (ine a b))
  | "i32.lt_s", [.i32 a, .i32 b] => .val (.i32 (ilt_s a b)) | "i32.lt_u", [.i32 a, .i32 b] => .val (.i32 (ilt_u a b))
  | "i32.gt_s", [.i32 a, .i32 b] => .val (.i32 (igt_s a b)) | "i32.gt_u", [.i32 a, .i32 b] => .val (.i32 (igt_u a b))
  | "i32.le_s", [.i32 a, .i32 b] => .val (.i32 (ile_s a b)) | "i32.le_u", [.i32 a, .i32 b] => .val (.i32 (ile_u a b))
  | "i32.ge_s", [.i32 a, .i32 b] => .val (.i32 (ige_s a b)) | "i32.ge_u", [.i32 a, .i32 b] => .val (.i32 (ige_u a b))
  | "i32.clz", [.i32 a] => .val (.i32 (iclz a)) | "i32.ctz", [.i32 a] => .val (.i32 (ictz a))
  | "i32.popcnt", [.i32 a] => .val (.i32 (ipopcnt a))
  | "i32.add", [.i32 a, .i32 b] => .val (.i32 (iadd a b)) | "i32.sub", [.i32 a, .i32 b] => .val (.i32 (isub a b))
  | "i32.mul", [.i32 a, .i32 b] => .val (.i32 (imul a b))
  | "i32.div_s", [.i32 a, .i32 b] => wrapI32 (idiv_s a b) | "i32.div_u", [.i32 a, .i32 b] => wrapI32 (idiv_u a b)
  | "i32.rem_s", [.i32 a, .i32 b] => wrapI32 (irem_s a b) | "i32.rem_u", [.i32 a, .i32 b] => wrapI32 (irem_u a b)
  | "i32.and", [.i32 a, .i32 b] => .val (.i32 (iand a b)) | "i32.or", [.i32 a, .i32 b] => .val (.i32 (ior a b))
  | "i32.xor", [.i32 a, .i32 b] => .val (.i32 (ixor a b))
  | "i32.shl", [.i32 a, .i32 b] => .val (.i32 (ishl a b)) | "i32.shr_s", [.i32 a, .i32 b] => .val (.i32 (ishr_s a b))
  | "i32.shr_u", [.i32 a, .i32 b] => .val (.i32 (ishr_u a b))
  | "i32.rotl", [.i32 a, .i32 b] => .val (.i32 (irotl a b)) | "i32.rotr", [.i32 a, .i32 b] => .val (.i32 (irotr a b))
  -- i64
  | "i64.eqz", [.i64 a] => .val (.i32 (ieqz a))
  | "i64.eq", [.i64 a, .i64 b] => .val (.i32 (ieq a b)) | "i64.ne", [.i64 a, .i64 b] => .val (.i32 (ine a b))
  | "i64.lt_s", [.i64 a, .i64 b] => .val (.i32 (ilt_s a b)) | "i64.lt_u", [.i64 a, .i64 b] => .val (.i32 (ilt_u a b))
  | "i64.gt_s", [.i64 a, .i64 b] => .val (.i32 (igt_s a b)) | "i64.gt_u", [.i64 a, .i64 b] => .val (.i32 (igt_u a b))
  | "i64.le_s", [.i64 a, .i64 b] => .val (.i32 (ile_s a b)) | "i64.le_u", [.i64 a, .i64 b] => .val (.i32 (ile_u a b))
  | "i64.ge_s", [.i64 a, .i64 b] => .val (.i32 (ige_s a b)) | "i64.ge_u", [.i64 a, .i64 b] => .val (.i32 (ige_u a b))
  | "i64.clz", [.i64 a] => .val (.i64 (iclz a)) | "i64.ctz", [.i64 a] => .val (.i64 (ictz a))
  | "i64.popcnt", [.i64 a] => .val (.i64 (ipopcnt a))
  | "i64.add", [.i64 a, .i64 b] => .val (.i64 (iadd a b)) | "i64.sub", [.i64 a, .i64 b] => .val (.i64 (isub a b))
  | "i64.mul", [.i64 a, .i64 b] => .val (.i64 (imul a b))
  | "i64.div_s", [.i64 a, .i64 b] => wrapI64 (idiv_s a b) | "i64.div_u", [.i64 a, .i64 b] => wrapI64 (idiv_u a b)
  | "i64.rem_s", [.i64 a, .i64 b] => wrapI64 (irem_s a b) | "i64.rem_u", [.i64 a, .i64 b] => wrapI64 (irem_u a b)
  | "i64.and", [.i64 a, .i64 b] => .val (.i64 (iand a b)) | "i64.or", [.i64 a, .i64 b] => .val (.i64 (ior a b))
  | "i64.xor", [.i64 a, .i64 b] => .val (.i64 (ixor a b))
  | "i64.shl", [.i64 a, .i64 b] => .val (.i64 (ishl a b)) | "i64.shr_s", [.i64 a, .i64 b] => .val (.i64 (ishr_s a b))
  | "i64.shr_u", [.i64 a, .i64 b] => .val (.i64 (ishr_u a b))
  | "i64.rotl", [.i64 a, .i64 b] => .val (.i64 (irotl a b)) | "i64.rotr", [.i64 a, .i64 b] => .val (.i64 (irotr a b))
  -- f32
  | "f32.eq", [.f32 a, .f32 b] => fcmp32 SF.eq a b | "f32.ne", [.f32 a, .f32 b] => fcmp32 (fun f x y => !SF.eq f x y) a b
  | "f32.lt", [.f32 a, .f32 b] => fcmp32 SF.lt a b | "f32.gt", [.f32 a, .f32 b] => fcmp32 SF.gt a b
  | "f32.le", [.f32 a, .f32 b] => fcmp32 SF.le a b | "f32.ge", [.f32 a, .f32 b] => fcmp32 SF.ge a b
  | "f32.abs", [.f32 a] => fun32 SF.abs a | "f32.neg", [.f32 a] => fun32 SF.neg a
  | "f32.ceil", [.f32 a] => fun32 (SF.rint · 2) a | "f32.floor", [.f32 a] => fun32 (SF.rint · 1) a
  | "f32.trunc", [.f32 a] => fun32 (SF.rint · 0) a | "f32.nearest", [.f32 a] => fun32 (SF.rint · 3) a
  | "f32.sqrt", [.f32 a] => fun32 SF.sqrt a
  | "f32.add", [.f32 a, .f32 b] => fbin32 SF.add a b | "f32.sub", [.f32 a, .f32 b] => fbin32 SF.sub a b
  | "f32.mul", [.f32 a, .f32 b] => fbin32 SF.mul a b | "f32.div", [.f32 a, .f32 b] => fbin32 SF.div a b
  | "f32.min", [.f32 a, .f32 b] => fbin32 SF.fmin a b | "f32.max", [.f32 a, .f32 b] => fbin32 SF.fmax a b
  | "f32.copysign", [.f32 a, .f32 b] => fbin32 SF.copysign a b
  -- f64
  | "f64.eq", [.f64 a, .f64 b] => fcmp64 SF.eq a b | "f64.ne", [.f64 a, .f64 b] => fcmp64 (fun f x y => !SF.eq f x y) a b
  | "f64.lt", [.f64 a, .f64 b] => fcmp64 SF.lt a b | "f64.gt", [.f64 a, .f64 b] => fcmp64 SF.gt a b
  | "f64.le", [.f64 a, .f64 b] => fcmp64 SF.le a b | "f64.ge", [.f64 a, .f64 b] => fcmp64 SF.ge a b
  | "f64.abs", [.f64 a] => fun64 SF.abs a | "f64.neg", [.f64 a] => fun64 SF.neg a
  | "f64.ceil", [.f64 a] => fun64 (SF.rint · 2) a | "f64.floor", [.f64 a] => fun64 (SF.rint · 1) a
  | "f64.trunc", [.f64 a] => fun64 (SF.rint · 0) a | "f64.nearest", [.f64 a] => fun64 (SF.rint · 3) a
  | "f64.sqrt", [.f64 a] => fun64 SF.sqrt a
  | "f64.add", [.f64 a, .f64 b] => fbin64 SF.add a b | "f64.sub", [.f64 a, .f64 b] => fbin64 SF.sub a b
  | "f64.mul", [.f64 a, .f64 b] => fbin64 SF.mul a b | "f64.div", [.f64 a, .f64 b] => fbin64 SF.div a b
  | "f64.min", [.f64 a, .f64 b] => fbin64 SF.fmin a b | "f64.max", [.f64 a, .f64 b] => fbin64 SF.fmax a b
  | "f64.copysign", [.f64 a, .f64 b] => fbin64 SF.copysign a b
  -- conversions
  | "i32.wrap_i64", [.i64 a] => .val (.i32 (wrap_i64 a))
  | "i32.trunc_f32_s", [.f32 a] => wrapI32 (truncTrap SF.f32 32 true a.toNat)
  | "i32.trunc_f32_u", [.f32 a] => wrapI32 (truncTrap SF.f32 32 false a.toNat)
  | "i32.trunc_f64_s", [.f64 a] => wrapI32 (truncTrap SF.f64 32 true a.toNat)
  | "i32.trunc_f64_u", [.f64 a] => wrapI32 (truncTrap SF.f64 32 false a.toNat)
  | "i64.extend_i32_s", [.i32 a] => .val (.i64 (extend_i32_s a))
  | "i64.extend_i32_u", [.i32 a] => .val (.i64 (extend_i32_u a))
  | "i64.trunc_f32_s", [.f32 a] => wrapI64 (truncTrap SF.f32 64 true a.toNat)
  | "i64.trunc_f32_u", [.f32 a] => wrapI64 (truncTrap SF.f32 64 false a.toNat)
  | "i64.trunc_f64_s", [.f64 a] => wrapI64 (truncTrap SF.f64 64 true a.toNat)
  | "i64.trunc_f64_u", [.f64 a] => wrapI64 (truncTrap SF.f64 64 false a.toNat)
  | "f32.convert_i32_s", [.i32 a] => .val (.f32 (b32 (SF.ofInt SF.f32 a.toInt)))
  | "f32.convert_i32_u", [.i32 a] => .val (.f32 (b32 (SF.ofInt SF.f32 a.toNat)))
  | "f32.convert_i64_s", [.i64 a] => .val (.f32 (b32 (SF.ofInt SF.f32 a.toInt)))
  | "f32.convert_i64_u", [.i64 a] => .val (.f32 (b32 (SF.ofInt SF.f32 a.toNat)))
  | "f32.demote_f64", [.f64 a] => .val (.f32 (b32 (SF.convert SF.f64 SF.f32 a.toNat)))
  | "f64.convert_i32_s", [.i32 a] => .val (.f64 (b64 (SF.ofInt SF.f64 a.toInt)))
  | "f64.convert_i32_u", [.i32 a] => .val (.f64 (b64 (SF.ofInt SF.f64 a.toNat)))
  | "f64.convert_i64_s", [.i64 a] => .val (.f64 (b64 (SF.ofInt SF.f64 a.toInt)))
  | "f64.convert_i64_u", [.i64 a] => .val (.f64 (b64 (SF.ofInt SF.f64 a.toNat)))
  | "f64.promote_f32", [.f32 a] => .val (.f64 (b64 (SF.convert SF.f32 SF.f64 a.toNat)))
  | "i32.reinterpret_f32", [.f32 a] => .val (.i32 a) | "i64.reinterpret_f64", [.f64 a] => .val (.i64 a)
  | "f32.reinterpret_i32", [.i32 a] => .val (.f32 a) | "f64.reinterpret_i64", [.i64 a] => .val (.f64 a)
  | "i32.extend8_s", [.i32 a] => .val (.i32 (iextend_s 8 a)) | "i32.extend16_s", [.i32 a] => .val (.i32 (iextend_s 16 a))
  | "i64.extend8_s", [.i64 a] => .val (.i64 (iextend_s 8 a)) | "i64.extend16_s", [.i64 a] => .val (.i64 (iextend_s 16 a))
  | "i64.extend32_s", [.i64 a] => .val (.i64 (iextend_s 32 a))
  | "i32.trunc_sat_f32_s", [.f32 a] => .val (.i32 (truncSat SF.f32 32 true a.toNat))
  | "i32.trunc_sat_f32_u", [.f32 a] => .val (.i32 (truncSat SF.f32 32 false a.toNat))
  | "i32.trunc_sat_f64_s", [.f64 a] => .val (.i32 (truncSat SF.f64 32 true a.toNat))
  | "i32.trunc_sat_f64_u", [.f64 a] => .val (.i32 (truncSat SF.f64 32 false a.toNat))
  | "i64.trunc_sat_f32_s", [.f32 a] => .val (.i64 (truncSat SF.f32 64 true a.toNat))
  | "i64.trunc_sat_f32_u", [.f32 a] => .val (.i64 (truncSat SF.f32 64 false a.toNat))
  | "i64.trunc_sat_f64_s", [.f64 a] => .val (.i64 (truncSat SF.f64 64 true a.toNat))
  | "i64.trunc_sat_f64_u", [.f64 a] => .val (.i64 (truncSat SF.f64 64 false a.toNat))
  | _, _ => .ub .typeError

end W2c2Verif.Spec
