/-
  Spec.Int — WebAssembly integer operators, written from the specification text
  (Numerics → Integer Operations) over `BitVec N`, independently of the C macros.
  `signed` is `BitVec.toInt`; "trunc" is truncation toward zero (`Int.tdiv` / `Int.tmod`).
-/
import W2c2Verif.CSem.Basic

namespace W2c2Verif.Spec

variable {N : Nat}

def iadd (a b : BitVec N) : BitVec N := a + b
def isub (a b : BitVec N) : BitVec N := a - b
def imul (a b : BitVec N) : BitVec N := a * b

/-- idiv_u: undefined (trap) if j₂ = 0, else trunc(j₁ / j₂) -/
def idiv_u (a b : BitVec N) : Out (BitVec N) :=
  if b.toNat = 0 then .trap .divByZero else .val (BitVec.ofNat N (a.toNat / b.toNat))

/-- idiv_s: trap if j₂ = 0; trap (overflow) if the quotient is 2^(N-1); else trunc toward zero -/
def idiv_s (a b : BitVec N) : Out (BitVec N) :=
  if b.toInt = 0 then .trap .divByZero
  else if Int.tdiv a.toInt b.toInt = 2 ^ (N - 1) then .trap .intOverflow
  else .val (BitVec.ofInt N (Int.tdiv a.toInt b.toInt))

def irem_u (a b : BitVec N) : Out (BitVec N) :=
  if b.toNat = 0 then .trap .divByZero else .val (BitVec.ofNat N (a.toNat % b.toNat))

/-- irem_s: trap if j₂ = 0; else j₁ − j₂·trunc(j₁/j₂) (sign of the dividend) -/
def irem_s (a b : BitVec N) : Out (BitVec N) :=
  if b.toInt = 0 then .trap .divByZero
  else .val (BitVec.ofInt N (Int.tmod a.toInt b.toInt))

def iand (a b : BitVec N) : BitVec N := a &&& b
def ior (a b : BitVec N) : BitVec N := a ||| b
def ixor (a b : BitVec N) : BitVec N := a ^^^ b

/-- shifts and rotates take the count modulo N -/
def ishl (a b : BitVec N) : BitVec N := a <<< (b.toNat % N)
def ishr_u (a b : BitVec N) : BitVec N := a >>> (b.toNat % N)
def ishr_s (a b : BitVec N) : BitVec N := a.sshiftRight (b.toNat % N)
def irotl (a b : BitVec N) : BitVec N := a.rotateLeft (b.toNat % N)
def irotr (a b : BitVec N) : BitVec N := a.rotateRight (b.toNat % N)

def iclz (a : BitVec N) : BitVec N := BitVec.clz a
def ictz (a : BitVec N) : BitVec N := BitVec.ctz a
def ipopcnt (a : BitVec N) : BitVec N := BitVec.cpop a

def bool32 (b : Bool) : BitVec 32 := if b then 1 else 0

def ieqz (a : BitVec N) : BitVec 32 := bool32 (a.toNat = 0)
def ieq (a b : BitVec N) : BitVec 32 := bool32 (a = b)
def ine (a b : BitVec N) : BitVec 32 := bool32 (a ≠ b)
def ilt_u (a b : BitVec N) : BitVec 32 := bool32 (a.toNat < b.toNat)
def ilt_s (a b : BitVec N) : BitVec 32 := bool32 (a.toInt < b.toInt)
def igt_u (a b : BitVec N) : BitVec 32 := bool32 (a.toNat > b.toNat)
def igt_s (a b : BitVec N) : BitVec 32 := bool32 (a.toInt > b.toInt)
def ile_u (a b : BitVec N) : BitVec 32 := bool32 (a.toNat ≤ b.toNat)
def ile_s (a b : BitVec N) : BitVec 32 := bool32 (a.toInt ≤ b.toInt)
def ige_u (a b : BitVec N) : BitVec 32 := bool32 (a.toNat ≥ b.toNat)
def ige_s (a b : BitVec N) : BitVec 32 := bool32 (a.toInt ≥ b.toInt)

/-- iextendM_s: reinterpret the low M bits as signed and extend to N -/
def iextend_s (M : Nat) (a : BitVec N) : BitVec N := (a.setWidth M).signExtend N

def wrap_i64 (a : BitVec 64) : BitVec 32 := a.setWidth 32
def extend_i32_s (a : BitVec 32) : BitVec 64 := a.signExtend 64
def extend_i32_u (a : BitVec 32) : BitVec 64 := a.setWidth 64

end W2c2Verif.Spec
