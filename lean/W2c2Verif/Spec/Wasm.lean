/-
  Spec.Wasm — abstract syntax and a fuel-indexed definitional interpreter for the function-body
  fragment of WebAssembly that w2c2 supports (MVP control flow, locals, globals, numeric
  instructions via `Spec.numOp`, memory instructions via `Spec.Mem`, calls).  Written from the
  specification's execution rules; structured control (`block/loop/if` carry their bodies).
-/
import W2c2Verif.Spec.Num
import W2c2Verif.Spec.Mem

namespace W2c2Verif.Wasm
open W2c2Verif Spec

inductive VT | i32 | i64 | f32 | f64
  deriving DecidableEq, Repr, Inhabited

def Val.ty : Val → VT | .i32 _ => .i32 | .i64 _ => .i64 | .f32 _ => .f32 | .f64 _ => .f64
def zeroOf : VT → Val | .i32 => .i32 0 | .i64 => .i64 0 | .f32 => .f32 0 | .f64 => .f64 0

inductive Instr
  | nop | unreachable | drop | select
  | const (v : Val)
  | numeric (mnemonic : String)                       -- `Spec.numOp` name, e.g. "i32.add"
  | localGet (i : Nat) | localSet (i : Nat) | localTee (i : Nat)
  | globalGet (i : Nat) | globalSet (i : Nat)
  | load (mnemonic : String) (offset : Nat) | store (mnemonic : String) (offset : Nat)
  | memorySize | memoryGrow | memoryCopy | memoryFill | memoryInit (seg : Nat) | dataDrop (seg : Nat)
  | block (bt : Option VT) (body : List Instr)
  | loop (bt : Option VT) (body : List Instr)
  | ite (bt : Option VT) (thn els : List Instr)
  | br (l : Nat) | brIf (l : Nat) | brTable (ls : List Nat) (d : Nat) | ret
  | call (f : Nat) | callIndirect (ty : Nat)
  deriving Repr, Inhabited

structure FuncType where
  params : List VT
  results : List VT
  deriving Repr, DecidableEq, Inhabited

structure Func where
  type : Nat                       -- index into the module's types
  locals : List VT                 -- declared locals (after the parameters)
  body : List Instr
  deriving Repr, Inhabited

/-- the part of the store a function body can touch -/
structure Store where
  globals : List Val
  mem : Mem
  pages : Nat
  maxPages : Nat
  table : List (Option Nat)        -- function indices
  dataSegs : List (Option (List (BitVec 8)))   -- `none` = dropped
  hostLog : List (Nat × List Val)  -- calls of imported functions, in order

structure Module where
  types : List FuncType
  importedFuncs : List Nat         -- type index per imported function
  funcs : List Func
  deriving Inhabited

/-- a host (imported) function: deterministic result from its index and arguments -/
abbrev Host := Nat → List Val → List VT → List Val

inductive Res
  | normal (stk : List Val)
  | branch (l : Nat) (stk : List Val)
  | ret (stk : List Val)
  | trap (t : Trap)
  | oof

/-- load kinds: (bytes, signed, result type) by mnemonic -/
def loadKind : String → Option (Nat × Bool × VT)
  | "i32.load" => some (4, false, .i32) | "i64.load" => some (8, false, .i64)
  | "f32.load" => some (4, false, .f32) | "f64.load" => some (8, false, .f64)
  | "i32.load8_s" => some (1, true, .i32) | "i32.load8_u" => some (1, false, .i32)
  | "i32.load16_s" => some (2, true, .i32) | "i32.load16_u" => some (2, false, .i32)
  | "i64.load8_s" => some (1, true, .i64) | "i64.load8_u" => some (1, false, .i64)
  | "i64.load16_s" => some (2, true, .i64) | "i64.load16_u" => some (2, false, .i64)
  | "i64.load32_s" => some (4, true, .i64) | "i64.load32_u" => some (4, false, .i64)
  | _ => none

def storeKind : String → Option Nat
  | "i32.store" => some 4 | "i64.store" => some 8 | "f32.store" => some 4 | "f64.store" => some 8
  | "i32.store8" => some 1 | "i32.store16" => some 2 | "i64.store8" => some 1 | "i64.store16" => some 2
  | "i64.store32" => some 4
  | _ => none

def mkVal (t : VT) (n : Nat) : Val :=
  match t with
  | .i32 => .i32 (BitVec.ofNat 32 n) | .i64 => .i64 (BitVec.ofNat 64 n)
  | .f32 => .f32 (BitVec.ofNat 32 n) | .f64 => .f64 (BitVec.ofNat 64 n)

def doLoad (m : Mem) (k : Nat) (signed : Bool) (t : VT) (ea : Nat) : Option Val :=
  if ea + k ≤ m.size then
    some (match t with
      | .i32 => .i32 (Spec.load k signed 32 m ea) | .i64 => .i64 (Spec.load k signed 64 m ea)
      | .f32 => .f32 (Spec.load k false 32 m ea) | .f64 => .f64 (Spec.load k false 64 m ea))
  else none

def takeArgs (n : Nat) (stk : List Val) : Option (List Val × List Val) :=
  if stk.length < n then none else some ((stk.take n).reverse, stk.drop n)

mutual
/-- run an instruction sequence; `stk` has its top at the head -/
def runSeq (fuel : Nat) (md : Module) (host : Host) (st : Store) (locals : List Val) (stk : List Val) :
    List Instr → Store × List Val × Res
  | [] => (st, locals, .normal stk)
  | i :: rest =>
    match runInstr fuel md host st locals stk i with
    | (st', locals', .normal stk') => runSeq fuel md host st' locals' stk' rest
    | r => r
termination_by is => (fuel, sizeOf is)

def runInstr (fuel : Nat) (md : Module) (host : Host) (st : Store) (locals : List Val) (stk : List Val) :
    Instr → Store × List Val × Res
  | .nop => (st, locals, .normal stk)
  | .unreachable => (st, locals, .trap .unreachable)
  | .drop => (st, locals, .normal stk.tail)
  | .select =>
    match stk with
    | .i32 c :: b :: a :: r => (st, locals, .normal ((if c ≠ 0 then a else b) :: r))
    | _ => (st, locals, .trap .unreachable)
  | .const v => (st, locals, .normal (v :: stk))
  | .numeric mn =>
    -- arity from the stack shape is ambiguous; try binary first when two operands of matching use exist
    let try2 : Option (Out Val × List Val) := match stk with
      | b :: a :: r => (match Spec.numOp mn [a, b] with | .ub _ => none | o => some (o, r))
      | _ => none
    let try1 : Option (Out Val × List Val) := match stk with
      | a :: r => (match Spec.numOp mn [a] with | .ub _ => none | o => some (o, r))
      | _ => none
    match (match try1 with | some x => some x | none => try2) with
    | some (.val v, r) => (st, locals, .normal (v :: r))
    | some (.trap t, _) => (st, locals, .trap t)
    | _ => (st, locals, .trap .unreachable)
  | .localGet i => (st, locals, .normal ((locals.getD i (.i32 0)) :: stk))
  | .localSet i => match stk with
    | v :: r => (st, locals.set i v, .normal r)
    | _ => (st, locals, .trap .unreachable)
  | .localTee i => match stk with
    | v :: r => (st, locals.set i v, .normal (v :: r))
    | _ => (st, locals, .trap .unreachable)
  | .globalGet i => (st, locals, .normal ((st.globals.getD i (.i32 0)) :: stk))
  | .globalSet i => match stk with
    | v :: r => ({ st with globals := st.globals.set i v }, locals, .normal r)
    | _ => (st, locals, .trap .unreachable)
  | .load mn off =>
    match stk, loadKind mn with
    | .i32 a :: r, some (k, sg, t) =>
      (match doLoad st.mem k sg t (a.toNat + off) with
       | some v => (st, locals, .normal (v :: r))
       | none => (st, locals, .trap .unreachable))          -- out of bounds: outside the property
    | _, _ => (st, locals, .trap .unreachable)
  | .store mn off =>
    match stk, storeKind mn with
    | v :: .i32 a :: r, some k =>
      if a.toNat + off + k ≤ st.mem.size then
        ({ st with mem := Spec.storeBytes st.mem (a.toNat + off) k v.bits }, locals, .normal r)
      else (st, locals, .trap .unreachable)
    | _, _ => (st, locals, .trap .unreachable)
  | .memorySize => (st, locals, .normal (.i32 (BitVec.ofNat 32 st.pages) :: stk))
  | .memoryGrow => match stk with
    | .i32 d :: r =>
      let np := st.pages + d.toNat
      if np ≤ st.maxPages ∧ np < 65536 then
        ({ st with pages := np, mem := { bytes := fun i => if i < st.mem.size then st.mem.bytes i else 0, size := np * 65536 } },
         locals, .normal (.i32 (BitVec.ofNat 32 st.pages) :: r))
      else (st, locals, .normal (.i32 (BitVec.ofNat 32 (2 ^ 32 - 1)) :: r))
    | _ => (st, locals, .trap .unreachable)
  | .memoryCopy => match stk with
    | .i32 n :: .i32 s :: .i32 d :: r =>
      if s.toNat + n.toNat ≤ st.mem.size ∧ d.toNat + n.toNat ≤ st.mem.size then
        let src := st.mem
        ({ st with mem := { src with bytes := fun i =>
            if d.toNat ≤ i ∧ i < d.toNat + n.toNat then src.bytes (s.toNat + (i - d.toNat)) else src.bytes i } },
         locals, .normal r)
      else (st, locals, .trap .unreachable)
    | _ => (st, locals, .trap .unreachable)
  | .memoryFill => match stk with
    | .i32 n :: .i32 v :: .i32 d :: r =>
      if d.toNat + n.toNat ≤ st.mem.size then
        let src := st.mem
        ({ st with mem := { src with bytes := fun i =>
            if d.toNat ≤ i ∧ i < d.toNat + n.toNat then v.setWidth 8 else src.bytes i } }, locals, .normal r)
      else (st, locals, .trap .unreachable)
    | _ => (st, locals, .trap .unreachable)
  | .memoryInit seg => match stk with
    | .i32 n :: .i32 s :: .i32 d :: r =>
      match st.dataSegs.getD seg none with
      | some bytes =>
        if s.toNat + n.toNat ≤ bytes.length ∧ d.toNat + n.toNat ≤ st.mem.size then
          let src := st.mem
          ({ st with mem := { src with bytes := fun i =>
              if d.toNat ≤ i ∧ i < d.toNat + n.toNat then bytes.getD (s.toNat + (i - d.toNat)) 0 else src.bytes i } },
           locals, .normal r)
        else (st, locals, .trap .unreachable)
      | none => if n.toNat = 0 ∧ s.toNat = 0 then (st, locals, .normal r) else (st, locals, .trap .unreachable)
    | _ => (st, locals, .trap .unreachable)
  | .dataDrop seg => ({ st with dataSegs := st.dataSegs.set seg none }, locals, .normal stk)
  | .block _ body =>
    match runSeq fuel md host st locals stk body with
    | (st', l', .branch 0 vs) => (st', l', .normal vs)
    | (st', l', .branch (n + 1) vs) => (st', l', .branch n vs)
    | r => r
  | .loop bt body =>
    match fuel with
    | 0 => (st, locals, .oof)
    | fuel' + 1 =>
      match runSeq fuel' md host st locals stk body with
      | (st', l', .branch 0 vs) => runInstr fuel' md host st' l' vs (.loop bt body)
      | (st', l', .branch (n + 1) vs) => (st', l', .branch n vs)
      | r => r
  | .ite _ thn els => match stk with
    | .i32 c :: r =>
      if c ≠ 0 then
        match runSeq fuel md host st locals r thn with
        | (st', l', .branch 0 vs) => (st', l', .normal vs)
        | (st', l', .branch (n + 1) vs) => (st', l', .branch n vs)
        | res => res
      else
        match runSeq fuel md host st locals r els with
        | (st', l', .branch 0 vs) => (st', l', .normal vs)
        | (st', l', .branch (n + 1) vs) => (st', l', .branch n vs)
        | res => res
    | _ => (st, locals, .trap .unreachable)
  | .br l => (st, locals, .branch l stk)
  | .brIf l => match stk with
    | .i32 c :: r => if c ≠ 0 then (st, locals, .branch l r) else (st, locals, .normal r)
    | _ => (st, locals, .trap .unreachable)
  | .brTable ls d => match stk with
    | .i32 c :: r => (st, locals, .branch (ls.getD c.toNat d) r)
    | _ => (st, locals, .trap .unreachable)
  | .ret => (st, locals, .ret stk)
  | .call f =>
    match fuel with
    | 0 => (st, locals, .oof)
    | fuel' + 1 =>
      let (st', out) := callFunc fuel' md host st f stk
      (st', locals, out)
  | .callIndirect ty => match stk with
    | .i32 idx :: r =>
      match fuel with
      | 0 => (st, locals, .oof)
      | fuel' + 1 =>
        match st.table.getD idx.toNat none with
        | some f =>
          let fty := if f < md.importedFuncs.length then md.importedFuncs.getD f 0
                     else (md.funcs.getD (f - md.importedFuncs.length) default).type
          if md.types.getD fty default = md.types.getD ty default then
            let (st', out) := callFunc fuel' md host st f r
            (st', locals, out)
          else (st, locals, .trap .unreachable)
        | none => (st, locals, .trap .unreachable)
    | _ => (st, locals, .trap .unreachable)
termination_by i => (fuel, sizeOf i)

/-- invoke function `f` (import or definition) with arguments taken from `stk` -/
def callFunc (fuel : Nat) (md : Module) (host : Host) (st : Store) (f : Nat) (stk : List Val) : Store × Res :=
  if f < md.importedFuncs.length then
    let ft := md.types.getD (md.importedFuncs.getD f 0) default
    match takeArgs ft.params.length stk with
    | some (args, r) =>
      let res := host f args ft.results
      ({ st with hostLog := st.hostLog ++ [(f, args)] }, .normal (res.reverse ++ r))
    | none => (st, .trap .unreachable)
  else
    let fn := md.funcs.getD (f - md.importedFuncs.length) default
    let ft := md.types.getD fn.type default
    match takeArgs ft.params.length stk with
    | some (args, r) =>
      match fuel with
      | 0 => (st, .oof)
      | fuel' + 1 =>
        let locals := args ++ fn.locals.map zeroOf
        match runSeq fuel' md host st locals [] fn.body with
        | (st', _, .normal vs) => (st', .normal (vs.take ft.results.length ++ r))
        | (st', _, .branch _ vs) => (st', .normal (vs.take ft.results.length ++ r))
        | (st', _, .ret vs) => (st', .normal (vs.take ft.results.length ++ r))
        | (st', _, .trap t) => (st', .trap t)
        | (st', _, .oof) => (st', .oof)
    | none => (st, .trap .unreachable)
termination_by (fuel, 0)
end

end W2c2Verif.Wasm
