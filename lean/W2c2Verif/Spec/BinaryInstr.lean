/-
  Spec.BinaryInstr — the immediates of instructions in the WebAssembly binary grammar (spec §5.4 "Instructions",
  §5.4.1 control, §5.4.3 parametric/variable, §5.4.6 memory, §5.4.7 numeric; bulk-memory and threads proposals for the
  0xFC / 0xFE prefixed ones) and the locals vector of a function body (§5.5.13), written from the specification;
  nothing here mentions w2c2.

  Only the SHAPE of what follows an opcode is described (which immediates, of which grammar type, how encoded) — not
  typing, not nesting of blocks.
-/
import W2c2Verif.Spec.Binary

namespace W2c2Verif.Spec.Binary

/-- grammar types of immediates -/
inductive ImmTy
  /-- `u32`: labelidx, funcidx, typeidx, tableidx, localidx, globalidx, dataidx, elemidx, memidx, memarg align / offset -/
  | u32
  /-- `i32.const n:i32` — an `s32` -/
  | s32
  /-- `i64.const n:i64` — an `s64` -/
  | s64
  /-- `f32.const z:f32` — 4 bytes, little endian -/
  | f32
  /-- `f64.const z:f64` — 8 bytes -/
  | f64
  /-- `l*:vec(labelidx)` of br_table -/
  | vecU32
  /-- blocktype ::= 0x40 | t:valtype (| x:s33, a type index: the multi-value proposal, not part of the supported set) -/
  | blocktype
  /-- the byte 0x00 of atomic.fence -/
  | zero
  /-- the `u32` sub-opcode after the prefix bytes 0xFC / 0xFE -/
  | subop
  deriving DecidableEq, Repr

/-- memarg ::= a:u32 o:u32 -/
def memarg : List ImmTy := [.u32, .u32]

/-- What follows the one-byte opcode `b`.  `none`: not an opcode of the MVP + sign-extension + bulk-memory + threads
    instruction set (e.g. 0x1C `select t*`, 0x25/0x26 table.get/set, 0xD0-0xD2 reference instructions).

      0x00 unreachable 0x01 nop 0x05 else 0x0B end 0x0F return 0x1A drop 0x1B select        —
      0x02 block bt  0x03 loop bt  0x04 if bt                                               bt:blocktype
      0x0C br l  0x0D br_if l                                                               l:labelidx
      0x0E br_table l* lN                                                                   vec(labelidx) labelidx
      0x10 call x                                                                           x:funcidx
      0x11 call_indirect y x                                                                y:typeidx x:tableidx
      0x20-0x24 local.get/set/tee global.get/set                                            x:u32
      0x28-0x3E loads and stores                                                            memarg
      0x3F memory.size  0x40 memory.grow                                                    x:memidx (release 2.0: the byte 0x00)
      0x41 i32.const  0x42 i64.const  0x43 f32.const  0x44 f64.const                        s32 / s64 / 4 bytes / 8 bytes
      0x45-0xC4 numeric instructions (incl. sign extension 0xC0-0xC4)                       —
      0xFC, 0xFE prefixes                                                                   n:u32, then see below -/
def immOfOpcode (b : Nat) : Option (List ImmTy) :=
  if b = 0x02 ∨ b = 0x03 ∨ b = 0x04 then some [.blocktype]
  else if b = 0x0C ∨ b = 0x0D then some [.u32]
  else if b = 0x0E then some [.vecU32, .u32]
  else if b = 0x10 then some [.u32]
  else if b = 0x11 then some [.u32, .u32]
  else if 0x20 ≤ b ∧ b ≤ 0x24 then some [.u32]
  else if 0x28 ≤ b ∧ b ≤ 0x3E then some memarg
  else if b = 0x3F ∨ b = 0x40 then some [.u32]
  else if b = 0x41 then some [.s32]
  else if b = 0x42 then some [.s64]
  else if b = 0x43 then some [.f32]
  else if b = 0x44 then some [.f64]
  else if 0x45 ≤ b ∧ b ≤ 0xC4 then some []
  else if b = 0x00 ∨ b = 0x01 ∨ b = 0x05 ∨ b = 0x0B ∨ b = 0x0F ∨ b = 0x1A ∨ b = 0x1B then some []
  else if b = 0xFC ∨ b = 0xFE then some [.subop]
  else none

/-- after `0xFC n`:  0-7 saturating truncations —;  8 memory.init x:dataidx m:memidx;  9 data.drop x;
    10 memory.copy m m;  11 memory.fill m;  12 table.init y:elemidx x:tableidx;  13 elem.drop y;  14 table.copy x x;
    15 table.grow x;  16 table.size x;  17 table.fill x -/
def immOfMisc (n : Nat) : Option (List ImmTy) :=
  if n ≤ 7 then some []
  else if n = 8 ∨ n = 10 ∨ n = 12 ∨ n = 14 then some [.u32, .u32]
  else if n = 9 ∨ n = 11 ∨ n = 13 ∨ n = 15 ∨ n = 16 ∨ n = 17 then some [.u32]
  else none

/-- after `0xFE n` (threads):  0 memory.atomic.notify, 1 wait32, 2 wait64: memarg;  3 atomic.fence: 0x00;
    0x10-0x4E atomic loads, stores, read-modify-writes, compare-exchanges: memarg -/
def immOfThreads (n : Nat) : Option (List ImmTy) :=
  if n ≤ 2 then some memarg
  else if n = 3 then some [.zero]
  else if 0x10 ≤ n ∧ n ≤ 0x4E then some memarg
  else none

/-- the value an immediate denotes -/
inductive ImmVal
  | nat (n : Nat)
  | int (i : Int)
  | bytes (b : List UInt8)
  | nats (ns : List Nat)
  deriving DecidableEq, Repr

/-- `EncImm ty v bs`: `bs` is an encoding of the immediate `v` of grammar type `ty` (every padding the grammar allows) -/
inductive EncImm : ImmTy → ImmVal → List UInt8 → Prop
  | u32 {n : Nat} {b : List UInt8} (h : ULeb 32 n b) : EncImm .u32 (.nat n) b
  | subop {n : Nat} {b : List UInt8} (h : ULeb 32 n b) : EncImm .subop (.nat n) b
  | s32 {v : Int} {b : List UInt8} (h : SLeb 32 v b) : EncImm .s32 (.int v) b
  | s64 {v : Int} {b : List UInt8} (h : SLeb 64 v b) : EncImm .s64 (.int v) b
  | f32 {b : List UInt8} (h : b.length = 4) : EncImm .f32 (.bytes b) b
  | f64 {b : List UInt8} (h : b.length = 8) : EncImm .f64 (.bytes b) b
  | vecU32 {ns : List Nat} {b : List UInt8} (h : EncVector (fun (i : Nat) b => ULeb 32 i b) ns b) : EncImm .vecU32 (.nats ns) b
  /-- 0x40: the empty block type; as the `s33` it is read as, the byte 0x40 is −64 -/
  | blockEmpty : EncImm .blocktype (.int (-64)) [0x40]
  /-- a value type: 0x7F … 0x7C are −1 … −4 -/
  | blockVal (t : VT) : EncImm .blocktype (.int ((t.byte.toNat : Int) - 128)) [t.byte]
  | zero : EncImm .zero (.nat 0) [0x00]

/-- the immediates of one instruction, concatenated -/
inductive EncImms : List ImmTy → List ImmVal → List UInt8 → Prop
  | nil : EncImms [] [] []
  | cons {ty : ImmTy} {tys : List ImmTy} {v : ImmVal} {vs : List ImmVal} {b bs : List UInt8} (h : EncImm ty v b)
      (t : EncImms tys vs bs) : EncImms (ty :: tys) (v :: vs) (b ++ bs)

/-! ### the locals of a function body (§5.5.13): `func ::= (t*)*:vec(locals) e:expr`, `locals ::= n:u32 t:valtype`
    denotes `t^n`; the locals of the function are the concatenation of the groups, indexed after the parameters. -/

/-- the sequence of local types a vector of groups `(n, t)` denotes -/
def expandLocals {τ : Type} (groups : List (Nat × τ)) : List τ :=
  groups.flatMap fun g => List.replicate g.1 g.2

end W2c2Verif.Spec.Binary
