/-
  Spec.Posix — a minimal model of the POSIX file interface, as far as `wasi/wasi.c` uses it
  for the calls of C12/C13: regular files (sparse: a size and a byte function), a name space
  of directories and files keyed by path components, open file descriptions (offset, access
  mode, status flags) behind small-integer descriptors, directory streams as opaque handles.

  It gives `open / close / read / write / pread / pwrite / lseek / fstat / stat / opendir /
  closedir` the meaning POSIX prescribes; where POSIX leaves a choice, the Linux choice is
  taken and marked (LINUX).  The model is validated on every run of the C12 check against
  the kernel by the "POSIX twin" executor of `tools/harness/wasi_ops.c`.

  What is outside the model is an explicit outcome `.unmodelled` (absolute paths, `.`/`..`
  components, empty components, lseek on directories), never a made-up answer.
-/
namespace W2c2Verif.Spec.Posix

abbrev Bytes := List UInt8

/-- host `errno` values (names as in <errno.h>) -/
inductive Errno
  | EPERM | ENOENT | ESRCH | EINTR | EIO | ENXIO | E2BIG | ENOEXEC | EBADF | ECHILD | EAGAIN
  | ENOMEM | EACCES | EFAULT | EBUSY | EEXIST | EXDEV | ENODEV | ENOTDIR | EISDIR | EINVAL | ENFILE
  | EMFILE | ENOTTY | ETXTBSY | EFBIG | ENOSPC | ESPIPE | EROFS | EMLINK | EPIPE | EDOM | ERANGE
  | ENAMETOOLONG | ENOTEMPTY | ELOOP | EOVERFLOW | ENOSYS
  deriving DecidableEq, Repr, Inhabited

inductive Whence | set | cur | «end»
  deriving DecidableEq, Repr, Inhabited

inductive Acc | rdonly | wronly | rdwr
  deriving DecidableEq, Repr, Inhabited

def Acc.canRead : Acc → Bool | .wronly => false | _ => true
def Acc.canWrite : Acc → Bool | .rdonly => false | _ => true

inductive OFlag | creat | directory | excl | trunc | append | dsync | nonblock | sync
  deriving DecidableEq, Repr, Inhabited

/-- result of a host call -/
inductive R (α : Type) where
  | ok (a : α)
  | err (e : Errno)
  | unmodelled
  deriving Repr, Inhabited, DecidableEq

/-! ## regular files -/

/-- A regular file: `size` bytes; byte `i < size` is `data i`.  `ext` lists the written extents
    (offset, length) — used only to print a sparse file, never to decide anything. -/
structure File where
  size : Nat
  data : Nat → UInt8
  ext : List (Nat × Nat)

def File.empty : File := ⟨0, fun _ => 0, []⟩

def File.byteAt (f : File) (i : Nat) : UInt8 := if i < f.size then f.data i else 0

/-- up to `n` bytes from offset `off` (short at end of file, empty beyond it) -/
def File.read (f : File) (off n : Nat) : Bytes :=
  (List.range (min n (f.size - off))).map fun k => f.byteAt (off + k)

/-- overwrite / extend with `bs` at `off`; a gap between the old end and `off` reads as zeros -/
def File.write (f : File) (off : Nat) (bs : Bytes) : File :=
  if bs.isEmpty then f else
  { size := max f.size (off + bs.length)
    data := fun i => if off ≤ i ∧ i < off + bs.length then bs.getD (i - off) 0 else f.byteAt i
    ext := (off, bs.length) :: f.ext }

theorem File.byteAt_write (f : File) (off : Nat) (bs : Bytes) (i : Nat) :
    (f.write off bs).byteAt i =
      if off ≤ i ∧ i < off + bs.length then bs.getD (i - off) 0 else f.byteAt i := by
  unfold File.write
  by_cases hb : bs.isEmpty
  · have : bs = [] := List.isEmpty_iff.mp hb
    subst this; simp; omega
  · simp only [hb, Bool.false_eq_true, ↓reduceIte, File.byteAt]
    by_cases h1 : off ≤ i ∧ i < off + bs.length
    · have : i < max f.size (off + bs.length) := by omega
      simp [h1, this]
    · simp only [h1, ↓reduceIte]
      by_cases h2 : i < f.size
      · have : i < max f.size (off + bs.length) := by omega
        simp [h2, this]
      · simp [h2]

theorem File.size_write (f : File) (off : Nat) (bs : Bytes) :
    (f.write off bs).size = if bs.isEmpty then f.size else max f.size (off + bs.length) := by
  unfold File.write; split <;> simp_all

theorem File.length_read (f : File) (off n : Nat) : (f.read off n).length = min n (f.size - off) := by
  simp [File.read]

/-! ## name space -/

inductive Node | dir | file (ino : Nat) | fifo (id : Nat)
  deriving DecidableEq, Repr, Inhabited

/-- The name space below the process's working directory: path components ↦ node.  The
    root `[]` is a directory.  `files` is the inode table (index = inode number); inodes are
    never reused. -/
structure FS where
  nodes : List (List Bytes × Node)
  files : List File

def FS.node? (fs : FS) (p : List Bytes) : Option Node :=
  if p.isEmpty then some .dir else (fs.nodes.find? (fun e => e.1 == p)).map (·.2)

def FS.file? (fs : FS) (ino : Nat) : Option File := fs.files[ino]?

def FS.setFile (fs : FS) (ino : Nat) (f : File) : FS := { fs with files := fs.files.set ino f }

/-- link count of a regular file: the number of names that denote the inode (an open file keeps its inode —
    contents, size — after its last name is removed or re-bound; only the count drops) -/
def FS.nlink (fs : FS) (ino : Nat) : Nat := (fs.nodes.filter fun e => e.2 == Node.file ino).length

def NAME_MAX : Nat := 255

/-- split at `/` -/
def splitSlash : Bytes → List Bytes
  | [] => [[]]
  | b :: r =>
    match splitSlash r with
    | [] => [[b]]          -- unreachable: splitSlash never returns []
    | c :: cs => if b = 47 then [] :: c :: cs else (b :: c) :: cs

/-- A path the model understands: relative, no NUL, no empty / `.` / `..` component. -/
def parsePath (p : Bytes) : Option (List Bytes) :=
  if p.isEmpty then none
  else if p.any (· == 0) then none
  else
    let cs := splitSlash p
    if cs.any (fun c => c.isEmpty || c == [46] || c == [46, 46]) then none else some cs

/-- walk all components but the last: each must be an existing directory -/
def FS.walkPrefix (fs : FS) : List Bytes → List Bytes → Option Errno
  | _, [] => none
  | _, [_] => none
  | pre, c :: c' :: cs =>
    if c.length > NAME_MAX then some .ENAMETOOLONG else
    match fs.node? (pre ++ [c]) with
    | none => some .ENOENT
    | some (.file _) => some .ENOTDIR
    | some (.fifo _) => some .ENOTDIR
    | some .dir => fs.walkPrefix (pre ++ [c]) (c' :: cs)

/-! ## open file descriptions, process state -/

inductive Target | file (ino : Nat) | dir (path : List Bytes) | fifo (id : Nat)
  deriving DecidableEq, Repr, Inhabited

structure OFD where
  tgt : Target
  pos : Nat
  acc : Acc
  flags : List OFlag        -- status flags kept by the description (append, dsync, nonblock, sync)
  deriving Repr, Inhabited

structure State where
  fs : FS
  fds : List (Option OFD)                 -- descriptor table of the process; index = descriptor
  dirs : List (Option (List Bytes))       -- directory streams (`DIR*`); index = handle
  maxBytes : Nat                          -- largest file offset of the file system (`s_maxbytes`)
  pipes : List Bytes := []                -- FIFOs / pipes (non-seekable): index = id, content = buffered bytes

def State.ofd? (s : State) (fd : Int) : Option OFD :=
  if fd < 0 then none else (s.fds[fd.toNat]?).join

def State.setOfd (s : State) (fd : Nat) (o : Option OFD) : State := { s with fds := s.fds.set fd o }

/-- lowest unused descriptor number -/
def lowestFree : List (Option OFD) → Nat
  | [] => 0
  | none :: _ => 0
  | some _ :: r => lowestFree r + 1

def State.install (s : State) (o : OFD) : State × Nat :=
  let n := lowestFree s.fds
  if n < s.fds.length then ({ s with fds := s.fds.set n (some o) }, n)
  else ({ s with fds := s.fds ++ [some o] }, n)

/-- `open(path, acc | flags, mode)` -/
def State.open (s : State) (path : Bytes) (acc : Acc) (flags : List OFlag) : State × R Nat :=
  -- (LINUX ≥ 6.4) O_CREAT together with O_DIRECTORY is rejected before the path walk
  if flags.contains .creat && flags.contains .directory then (s, .err .EINVAL) else
  match parsePath path with
  | none => (s, .unmodelled)
  | some cs =>
    match s.fs.walkPrefix [] cs with
    | some e => (s, .err e)
    | none =>
      if (cs.getLastD []).length > NAME_MAX then (s, .err .ENAMETOOLONG) else
      let status := flags.filter fun f => f == .append || f == .dsync || f == .nonblock || f == .sync
      match s.fs.node? cs with
      | none =>
        if flags.contains .creat then
          let ino := s.fs.files.length
          let fs' : FS := { nodes := s.fs.nodes ++ [(cs, .file ino)], files := s.fs.files ++ [File.empty] }
          let (s', fd) := ({ s with fs := fs' } : State).install ⟨.file ino, 0, acc, status⟩
          (s', .ok fd)
        else (s, .err .ENOENT)
      | some .dir =>
        if flags.contains .creat && flags.contains .excl then (s, .err .EEXIST)
        -- (LINUX) a directory can only be opened read-only, without O_CREAT / O_TRUNC
        else if acc.canWrite || flags.contains .creat || flags.contains .trunc then (s, .err .EISDIR)
        else
          let (s', fd) := s.install ⟨.dir cs, 0, acc, status⟩
          (s', .ok fd)
      | some (.fifo id) =>
        -- a FIFO whose other end is open: `open` does not block; O_TRUNC has no effect
        if flags.contains .creat && flags.contains .excl then (s, .err .EEXIST)
        else if flags.contains .directory then (s, .err .ENOTDIR)
        else
          let (s', fd) := s.install ⟨.fifo id, 0, acc, status⟩
          (s', .ok fd)
      | some (.file ino) =>
        if flags.contains .creat && flags.contains .excl then (s, .err .EEXIST)
        else if flags.contains .directory then (s, .err .ENOTDIR)
        else
          -- (LINUX) O_TRUNC truncates even when the access mode is O_RDONLY
          let fs' := if flags.contains .trunc then s.fs.setFile ino File.empty else s.fs
          let (s', fd) := ({ s with fs := fs' } : State).install ⟨.file ino, 0, acc, status⟩
          (s', .ok fd)

def State.close (s : State) (fd : Int) : State × R Unit :=
  match s.ofd? fd with
  | none => (s, .err .EBADF)
  | some _ => (s.setOfd fd.toNat none, .ok ())

/-- `read(fd, buf, n)` on a regular file or directory -/
def State.read (s : State) (fd : Int) (n : Nat) : State × R Bytes :=
  match s.ofd? fd with
  | none => (s, .err .EBADF)
  | some o =>
    if !o.acc.canRead then (s, .err .EBADF) else
    match o.tgt with
    | .dir _ => (s, .err .EISDIR)
    | .fifo id =>
      -- a pipe with a writer: the buffered bytes, EAGAIN when empty and O_NONBLOCK (blocking is not modelled)
      let buf := s.pipes.getD id []
      if n = 0 then (s, .ok [])
      else if buf.isEmpty then (if o.flags.contains .nonblock then (s, .err .EAGAIN) else (s, .unmodelled))
      else ({ s with pipes := s.pipes.set id (buf.drop n) }, .ok (buf.take n))
    | .file ino =>
      match s.fs.file? ino with
      | none => (s, .err .EIO)
      | some f =>
        let bs := f.read o.pos n
        (s.setOfd fd.toNat (some { o with pos := o.pos + bs.length }), .ok bs)

/-- `readv(fd, iov, cnt)` with segment lengths `lens`: one read of the total length, delivered into
    the segments in order.  (LINUX) a total length of 0 returns 0 after the access-mode check,
    also on a directory. -/
def State.readv (s : State) (fd : Int) (lens : List Nat) : State × R Bytes :=
  if lens.sum = 0 then
    match s.ofd? fd with
    | none => (s, .err .EBADF)
    | some o => if !o.acc.canRead then (s, .err .EBADF) else (s, .ok [])
  else s.read fd lens.sum

/-- the bytes of `bs` that fit below `maxBytes` when written at `pos` -/
def clip (maxBytes pos : Nat) (bs : Bytes) : Bytes := bs.take (maxBytes - pos)

/-- `write(fd, bs)` -/
def State.write (s : State) (fd : Int) (bs : Bytes) : State × R Nat :=
  match s.ofd? fd with
  | none => (s, .err .EBADF)
  | some o =>
    if !o.acc.canWrite then (s, .err .EBADF) else
    match o.tgt with
    | .dir _ => (s, .err .EBADF)
    | .fifo id =>
      -- a pipe with a reader and room for the data (PIPE_BUF-sized writes; a full pipe is not modelled)
      let buf := s.pipes.getD id []
      if buf.length + bs.length > 4096 then (s, .unmodelled)
      else ({ s with pipes := s.pipes.set id (buf ++ bs) }, .ok bs.length)
    | .file ino =>
      match s.fs.file? ino with
      | none => (s, .err .EIO)
      | some f =>
        if bs.isEmpty then (s, .ok 0) else
        let pos := if o.flags.contains .append then f.size else o.pos
        if pos ≥ s.maxBytes then (s, .err .EFBIG) else
        let bs' := clip s.maxBytes pos bs
        let s1 := { s with fs := s.fs.setFile ino (f.write pos bs') }
        (s1.setOfd fd.toNat (some { o with pos := pos + bs'.length }), .ok bs'.length)

/-- `lseek(fd, off, whence)` on a regular file -/
def State.lseek (s : State) (fd : Int) (off : Int) (w : Whence) : State × R Nat :=
  match s.ofd? fd with
  | none => (s, .err .EBADF)
  | some o =>
    match o.tgt with
    | .dir _ => (s, .unmodelled)
    | .fifo _ => (s, .err .ESPIPE)
    | .file ino =>
      match s.fs.file? ino with
      | none => (s, .err .EIO)
      | some f =>
        let base : Int := match w with | .set => 0 | .cur => o.pos | .end => f.size
        let new := base + off
        -- (LINUX) both a negative result and one beyond s_maxbytes are EINVAL
        if new < 0 ∨ new > s.maxBytes then (s, .err .EINVAL)
        else (s.setOfd fd.toNat (some { o with pos := new.toNat }), .ok new.toNat)

/-- `pread(fd, buf, n, off)`: the description's offset is not used and not changed -/
def State.pread (s : State) (fd : Int) (n : Nat) (off : Int) : State × R Bytes :=
  if off < 0 then (s, .err .EINVAL) else
  match s.ofd? fd with
  | none => (s, .err .EBADF)
  | some o =>
    match o.tgt with
    | .fifo _ => (s, .err .ESPIPE)          -- (LINUX) no FMODE_PREAD: ESPIPE whatever the access mode
    | .dir _ => if !o.acc.canRead then (s, .err .EBADF) else (s, .err .EISDIR)
    | .file ino =>
      if !o.acc.canRead then (s, .err .EBADF) else
      match s.fs.file? ino with
      | none => (s, .err .EIO)
      | some f => (s, .ok (f.read off.toNat n))

/-- `pwrite(fd, bs, off)`.  (LINUX) on a description opened with O_APPEND the data is appended
    regardless of `off` (documented under BUGS in pwrite(2)); the offset is never changed. -/
def State.pwrite (s : State) (fd : Int) (bs : Bytes) (off : Int) : State × R Nat :=
  if off < 0 then (s, .err .EINVAL) else
  match s.ofd? fd with
  | none => (s, .err .EBADF)
  | some o =>
    match o.tgt with
    | .fifo _ => (s, .err .ESPIPE)
    | .dir _ => (s, .err .EBADF)
    | .file ino =>
      if !o.acc.canWrite then (s, .err .EBADF) else
      match s.fs.file? ino with
      | none => (s, .err .EIO)
      | some f =>
        if bs.isEmpty then (s, .ok 0) else
        let pos := if o.flags.contains .append then f.size else off.toNat
        if pos ≥ s.maxBytes then (s, .err .EFBIG) else
        let bs' := clip s.maxBytes pos bs
        ({ s with fs := s.fs.setFile ino (f.write pos bs') }, .ok bs'.length)

/-- what `fstat`/`stat` report, as far as the WASI calls use it -/
structure Stat where
  isDir : Bool
  size : Nat
  nlink : Nat
  isFifo : Bool := false
  deriving Repr, Inhabited, DecidableEq

/-- directory size and link count are host-determined; fixed stand-ins (the harness
    canonicalises the real values to the same constants) -/
def dirStat : Stat := ⟨true, 0x7777, 0x66, false⟩

def State.fstat (s : State) (fd : Int) : R Stat :=
  match s.ofd? fd with
  | none => .err .EBADF
  | some o =>
    match o.tgt with
    | .dir _ => .ok dirStat
    | .fifo _ => .ok ⟨false, 0, 1, true⟩
    | .file ino =>
      match s.fs.file? ino with
      | none => .err .EIO
      | some f => .ok ⟨false, f.size, s.fs.nlink ino, false⟩

def State.stat (s : State) (path : Bytes) : R Stat :=
  match parsePath path with
  | none => .unmodelled
  | some cs =>
    match s.fs.walkPrefix [] cs with
    | some e => .err e
    | none =>
      if (cs.getLastD []).length > NAME_MAX then .err .ENAMETOOLONG else
      match s.fs.node? cs with
      | none => .err .ENOENT
      | some .dir => .ok dirStat
      | some (.fifo _) => .ok ⟨false, 0, 1, true⟩
      | some (.file ino) =>
        match s.fs.file? ino with
        | none => .err .EIO
        | some f => .ok ⟨false, f.size, s.fs.nlink ino, false⟩

def State.fcntlGetfl (s : State) (fd : Int) : R (Acc × List OFlag) :=
  match s.ofd? fd with
  | none => .err .EBADF
  | some o => .ok (o.acc, o.flags)

def State.opendir (s : State) (path : Bytes) : State × R Nat :=
  match s.stat path with
  | .unmodelled => (s, .unmodelled)
  | .err e => (s, .err e)
  | .ok st =>
    if !st.isDir then (s, .err .ENOTDIR) else
    match parsePath path with
    | none => (s, .unmodelled)
    | some cs => ({ s with dirs := s.dirs ++ [some cs] }, .ok s.dirs.length)

def State.closedir (s : State) (h : Nat) : State × R Unit :=
  match (s.dirs[h]?).join with
  | none => (s, .err .EBADF)
  | some _ => ({ s with dirs := s.dirs.set h none }, .ok ())

/-- `unlink(path)` of a regular file or FIFO: the NAME goes away, open descriptions of the inode are unaffected -/
def State.unlink (s : State) (path : Bytes) : State × R Unit :=
  match parsePath path with
  | none => (s, .unmodelled)
  | some cs =>
    match s.fs.walkPrefix [] cs with
    | some e => (s, .err e)
    | none =>
      if (cs.getLastD []).length > NAME_MAX then (s, .err .ENAMETOOLONG) else
      match s.fs.node? cs with
      | none => (s, .err .ENOENT)
      | some .dir => (s, .err .EISDIR)             -- (LINUX) POSIX says EPERM
      | some _ => ({ s with fs := { s.fs with nodes := s.fs.nodes.filter fun e => !(e.1 == cs) } }, .ok ())

/-- `rename(old, new)` of a regular file or FIFO: `new` is bound to the inode of `old` (a file that `new` named
    before loses that name), `old` disappears; directories are not modelled -/
def State.rename (s : State) (old new : Bytes) : State × R Unit :=
  match parsePath old, parsePath new with
  | some co, some cn =>
    match s.fs.walkPrefix [] co with
    | some e => (s, .err e)
    | none =>
      -- (LINUX) both parent directories are resolved before either last component is looked up: a non-directory in the
      -- prefix of `new` is reported (ENOTDIR) even when `old` does not exist
      match s.fs.walkPrefix [] cn with
      | some e => (s, .err e)
      | none =>
      if (co.getLastD []).length > NAME_MAX then (s, .err .ENAMETOOLONG) else
      match s.fs.node? co with
      | none => (s, .err .ENOENT)
      | some .dir => (s, .unmodelled)
      | some nd =>
          if (cn.getLastD []).length > NAME_MAX then (s, .err .ENAMETOOLONG) else
          match s.fs.node? cn with
          | some .dir => (s, .err .EISDIR)
          | _ =>
            if co == cn then (s, .ok ()) else
            let rest := s.fs.nodes.filter fun e => !(e.1 == co) && !(e.1 == cn)
            ({ s with fs := { s.fs with nodes := rest ++ [(cn, nd)] } }, .ok ())
  | _, _ => (s, .unmodelled)

def State.fsync (s : State) (fd : Int) : R Unit :=
  match s.ofd? fd with
  | none => .err .EBADF
  | some _ => .ok ()

/-! ## setup helpers (used by the driver to mirror the harness's `mkfile` / `mkdir`) -/

def fileOfBytes (bs : Bytes) : File := File.empty.write 0 bs

def State.mkfile (s : State) (cs : List Bytes) (bs : Bytes) : State :=
  match s.fs.node? cs with
  | some (.file ino) => { s with fs := s.fs.setFile ino (fileOfBytes bs) }
  | some .dir => s
  | some (.fifo _) => s
  | none =>
    { s with fs := { nodes := s.fs.nodes ++ [(cs, .file s.fs.files.length)], files := s.fs.files ++ [fileOfBytes bs] } }

/-- `mkfifo` (setup): a new FIFO with an empty buffer; the harness keeps both ends open -/
def State.mkfifo (s : State) (cs : List Bytes) : State :=
  match s.fs.node? cs with
  | some _ => s
  | none => { s with fs := { s.fs with nodes := s.fs.nodes ++ [(cs, .fifo s.pipes.length)] }, pipes := s.pipes ++ [[]] }

def State.mkdir (s : State) (cs : List Bytes) : State :=
  match s.fs.node? cs with
  | some _ => s
  | none => { s with fs := { s.fs with nodes := s.fs.nodes ++ [(cs, .dir)] } }

end W2c2Verif.Spec.Posix
