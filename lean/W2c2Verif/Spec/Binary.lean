/-
  Spec.Binary — the WebAssembly binary grammar for integers (spec §5.2.2 "Integers"), as relations.

      uN ::= n:byte             ⇒ n                     (if n < 2^7 ∧ n < 2^N)
           | n:byte m:u(N−7)    ⇒ 2^7·m + (n − 2^7)     (if n ≥ 2^7 ∧ N > 7)

      sN ::= n:byte             ⇒ n                     (if n < 2^6 ∧ n < 2^(N−1))
           | n:byte             ⇒ n − 2^7               (if 2^6 ≤ n < 2^7 ∧ n ≥ 2^7 − 2^(N−1))
           | n:byte m:s(N−7)    ⇒ 2^7·m + (n − 2^7)     (if n ≥ 2^7 ∧ N > 7)

  (below 2^7 = 128 and 2^6 = 64 are written as literals)
  `ULeb N v bs` / `SLeb N v bs`: the byte string `bs` is *an* encoding of `v` as `uN` / `sN`.  One value
  has many encodings (redundant padding, up to ⌈N/7⌉ bytes); the side conditions on the last byte say
  which of its unused high bits must be zero (unsigned) or copies of the sign (signed).

  The second half gives the section framing of a module (spec §5.5.2): `Sec`, `encodeSec`, and
  `Framing` = any interleaving of custom sections with the non-custom sections, every size field being
  any `u32` encoding of the payload length.
-/
namespace W2c2Verif.Spec.Binary

inductive ULeb : Nat → Nat → List UInt8 → Prop
  | last {N : Nat} (b : UInt8) (hN : 0 < N) (h7 : b.toNat < 128) (hr : b.toNat < 2 ^ N) :
      ULeb N b.toNat [b]
  | more {N m : Nat} {bs : List UInt8} (b : UInt8) (h7 : 128 ≤ b.toNat) (hN : 7 < N) (ht : ULeb (N - 7) m bs) :
      ULeb N (128 * m + (b.toNat - 128)) (b :: bs)

inductive SLeb : Nat → Int → List UInt8 → Prop
  | pos {N : Nat} (b : UInt8) (hN : 0 < N) (h6 : b.toNat < 64) (hr : b.toNat < 2 ^ (N - 1)) :
      SLeb N (b.toNat : Int) [b]
  | neg {N : Nat} (b : UInt8) (hN : 0 < N) (h6 : 64 ≤ b.toNat) (h7 : b.toNat < 128)
      (hr : 128 ≤ b.toNat + 2 ^ (N - 1)) :
      SLeb N ((b.toNat : Int) - 128) [b]
  | more {N : Nat} {m : Int} {bs : List UInt8} (b : UInt8) (h7 : 128 ≤ b.toNat) (hN : 7 < N)
      (ht : SLeb (N - 7) m bs) :
      SLeb N (128 * m + ((b.toNat : Int) - 128)) (b :: bs)

/-! Basic facts about the grammar (range of the denoted value, length bound). -/

theorem ULeb.lt {N v : Nat} {bs : List UInt8} (h : ULeb N v bs) : v < 2 ^ N := by
  induction h with
  | last b hN h7 hr => exact hr
  | @more N m bs b h7 hN ht ih =>
    have hb : b.toNat < 256 := b.toNat_lt
    have : 2 ^ N = 2 ^ 7 * 2 ^ (N - 7) := by rw [← Nat.pow_add]; congr 1; omega
    rw [this]
    have h1 : 2 ^ 7 * (m + 1) ≤ 2 ^ 7 * 2 ^ (N - 7) := Nat.mul_le_mul_left _ ih
    omega

theorem ULeb.length_pos {N v : Nat} {bs : List UInt8} (h : ULeb N v bs) : 0 < bs.length := by
  cases h <;> simp

theorem ULeb.length_le {N v : Nat} {bs : List UInt8} (h : ULeb N v bs) : 7 * bs.length < N + 7 := by
  induction h with
  | last b hN h7 hr => simp; omega
  | more b h7 hN ht ih => simp; omega

theorem SLeb.range {N : Nat} {v : Int} {bs : List UInt8} (h : SLeb N v bs) :
    -(2 ^ (N - 1) : Nat) ≤ v ∧ v < (2 ^ (N - 1) : Nat) := by
  induction h with
  | pos b hN h6 hr => constructor <;> omega
  | neg b hN h6 h7 hr => constructor <;> omega
  | @more N m bs b h7 hN ht ih =>
    have hb : b.toNat < 256 := b.toNat_lt
    have e : 2 ^ (N - 1) = 2 ^ 7 * 2 ^ (N - 7 - 1) := by rw [← Nat.pow_add]; congr 1; omega
    rw [e]
    generalize 2 ^ (N - 7 - 1) = P at ih
    have hc : ((2 ^ 7 * P : Nat) : Int) = 2 ^ 7 * (P : Int) := by simp
    rw [hc]
    obtain ⟨l, u⟩ := ih
    constructor <;> omega

theorem SLeb.length_pos {N : Nat} {v : Int} {bs : List UInt8} (h : SLeb N v bs) : 0 < bs.length := by
  cases h <;> simp

theorem SLeb.length_le {N : Nat} {v : Int} {bs : List UInt8} (h : SLeb N v bs) : 7 * bs.length < N + 7 := by
  induction h with
  | pos b hN h6 hr => simp; omega
  | neg b hN h6 h7 hr => simp; omega
  | more b h7 hN ht ih => simp; omega

/-- The shortest encoding (what every encoder emits by default) — used for non-vacuity examples. -/
def encodeU : Nat → Nat → List UInt8
  | 0, _ => []
  | fuel + 1, v => if v < 128 then [UInt8.ofNat v] else UInt8.ofNat (v % 128 + 128) :: encodeU fuel (v / 128)

/-! ### section framing (spec §5.5.2 "Sections", §5.5.3 "Custom Section")

    section_N(B) ::= N:byte size:u32 cont:B        (size = ||B||)
    customsec    ::= section_0(custom)     custom ::= name byte*      name ::= vec(byte)

A module is a sequence of sections; custom sections may appear anywhere.  Every `u32` may be padded. -/

/-- One section as the framing layer sees it: a non-custom section is an id and an opaque payload. -/
inductive Item
  | sec (id : UInt8) (payload : List UInt8)
  | custom (name content : List UInt8)

/-- `EncItem it bs`: `bs` is an encoding of the section `it` (any padding of the size and name-length fields). -/
inductive EncItem : Item → List UInt8 → Prop
  | sec {id : UInt8} {payload sz : List UInt8} (hid : id ≠ 0) (hsz : ULeb 32 payload.length sz) :
      EncItem (.sec id payload) (id :: (sz ++ payload))
  | custom {name content nsz sz : List UInt8} (hn : ULeb 32 name.length nsz)
      (hsz : ULeb 32 (nsz ++ (name ++ content)).length sz) :
      EncItem (.custom name content) (0 :: (sz ++ (nsz ++ (name ++ content))))

inductive EncStream : List Item → List UInt8 → Prop
  | nil : EncStream [] []
  | cons {it : Item} {its : List Item} {b bs : List UInt8} (h : EncItem it b) (t : EncStream its bs) :
      EncStream (it :: its) (b ++ bs)

/-- What remains of a stream when custom sections are dropped: the list of non-custom `(id, payload)`. -/
def view : List Item → List (UInt8 × List UInt8)
  | [] => []
  | .sec id p :: t => (id, p) :: view t
  | .custom _ _ :: t => view t

/-- names of the custom sections of a stream -/
def customNames : List Item → List (List UInt8)
  | [] => []
  | .sec _ _ :: t => customNames t
  | .custom n _ :: t => n :: customNames t

/-! ### types, limits and the vector-shaped sections (spec §5.3 "Types", §5.5.4-5.5.7, 5.5.11) -/

inductive VT | i32 | i64 | f32 | f64
  deriving DecidableEq, Repr

/-- valtype ::= 0x7F | 0x7E | 0x7D | 0x7C -/
def VT.byte : VT → UInt8
  | .i32 => 0x7F | .i64 => 0x7E | .f32 => 0x7D | .f64 => 0x7C

structure FuncTy where
  params : List VT
  results : List VT
  deriving DecidableEq, Repr

/-- limits, incl. the threads proposal's shared flag (which requires a maximum) -/
inductive Lim
  | noMax (min : Nat)
  | withMax (min max : Nat)
  | shared (min max : Nat)
  deriving DecidableEq, Repr

/-- concatenation of the encodings of the elements -/
inductive EncSeq {α : Type} (E : α → List UInt8 → Prop) : List α → List UInt8 → Prop
  | nil : EncSeq E [] []
  | cons {a : α} {as : List α} {b bs : List UInt8} (h : E a b) (t : EncSeq E as bs) : EncSeq E (a :: as) (b ++ bs)

/-- vec(B) ::= n:u32 (x:B)^n — the count in any padding -/
inductive EncVector {α : Type} (E : α → List UInt8 → Prop) : List α → List UInt8 → Prop
  | mk {as : List α} {c body : List UInt8} (hc : ULeb 32 as.length c) (hb : EncSeq E as body) : EncVector E as (c ++ body)

def EncValType (t : VT) (b : List UInt8) : Prop := b = [t.byte]

/-- functype ::= 0x60 vec(valtype) vec(valtype) -/
inductive EncFuncType : FuncTy → List UInt8 → Prop
  | mk {ft : FuncTy} {p r : List UInt8} (hp : EncVector EncValType ft.params p) (hr : EncVector EncValType ft.results r) :
      EncFuncType ft (0x60 :: (p ++ r))

/-- limits ::= 0x00 n:u32 | 0x01 n:u32 m:u32 | 0x03 n:u32 m:u32 -/
inductive EncLimits : Lim → List UInt8 → Prop
  | noMax {n : Nat} {a : List UInt8} (ha : ULeb 32 n a) : EncLimits (.noMax n) (0x00 :: a)
  | withMax {n m : Nat} {a b : List UInt8} (ha : ULeb 32 n a) (hb : ULeb 32 m b) : EncLimits (.withMax n m) (0x01 :: (a ++ b))
  | shared {n m : Nat} {a b : List UInt8} (ha : ULeb 32 n a) (hb : ULeb 32 m b) : EncLimits (.shared n m) (0x03 :: (a ++ b))

/-- tabletype ::= 0x70 limits -/
inductive EncTableType : Lim → List UInt8 → Prop
  | mk {l : Lim} {b : List UInt8} (h : EncLimits l b) : EncTableType l (0x70 :: b)

end W2c2Verif.Spec.Binary
