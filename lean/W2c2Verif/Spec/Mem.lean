/-
  Spec.Mem — WebAssembly memory instructions on a byte array, from the specification:
  a load reads N/8 bytes at the effective address, interprets them little-endian
  (b₀ + 256·b₁ + …) and zero- or sign-extends; a store writes the low N/8 bytes of the value
  little-endian and changes nothing else.
-/
import W2c2Verif.CSem.Mem

namespace W2c2Verif.Spec

/-- little-endian value of the `k` bytes at `a` -/
def leValue (m : Mem) (a : Nat) : Nat → Nat
  | 0 => 0
  | k + 1 => (m.rd a).toNat + 256 * leValue m (a + 1) k

/-- load `k` bytes, extend to `N` bits -/
def load (k : Nat) (signed : Bool) (N : Nat) (m : Mem) (a : Nat) : BitVec N :=
  if signed then BitVec.ofInt N (BitVec.ofNat (8 * k) (leValue m a k)).toInt
  else BitVec.ofNat N (leValue m a k)

/-- write the `k` low bytes of `v` little-endian at `a` -/
def storeBytes (m : Mem) (a : Nat) : Nat → Nat → Mem
  | 0, _ => m
  | k + 1, v => storeBytes (m.wr a (BitVec.ofNat 8 (v % 256))) (a + 1) k (v / 256)

def store (k : Nat) {N : Nat} (m : Mem) (a : Nat) (v : BitVec N) : Mem := storeBytes m a k v.toNat

/-- atomic read-modify-write of a `k`-byte cell (`W = 8k` bits) with an `N`-bit operand:
    returns the zero-extended old value; the cell receives `op old (wrap_W v)` -/
def rmw (k W N : Nat) (op : RmwOp) (m : Mem) (a : Nat) (v : BitVec N) : BitVec N × Mem :=
  let old : BitVec W := load k false W m a
  (old.setWidth N, store k m a (op.apply old (v.setWidth W)))

/-- atomic compare-exchange: compares with `wrap_W expected`, returns the zero-extended old value -/
def cmpxchg (k W N : Nat) (m : Mem) (a : Nat) (expected replacement : BitVec N) : BitVec N × Mem :=
  let old : BitVec W := load k false W m a
  (old.setWidth N, if old = expected.setWidth W then store k m a (replacement.setWidth W) else m)

end W2c2Verif.Spec
