/-
  Spec.WasiAbi — how a WASI host may touch guest linear memory (property C19, host side), and the record layouts
  of the WASI ABI written by hand from the witx definitions (wasi_snapshot_preview1.witx / wasi_unstable.witx, typenames.witx).

  Guest linear memory is little-endian.  w2c2_base.h gives the host two ways to reach it:
    * the ACCESSOR functions `iNN_loadMM` / `iNN_storeMM` — on a big-endian host these reverse the bytes of the
      accessed cell (Props.C19 proves: exactly once, at exactly the access width);
    * the raw byte array `memory->data`, which is the guest's bytes in guest order on every host.
  A host function is byte-order independent iff every field of width 16/32/64 bits goes through an accessor of exactly
  that width and raw touches only ever move BYTES (strings, I/O buffers, zero fill).  The types below are the rows of the
  two tables regenerated from wasi.c (`Gen.WasiRaw`); the layouts are the specification they are compared with.
-/
namespace W2c2Verif.Spec.WasiAbi

/-- what is on the other side of a raw (non-accessor) touch of guest memory -/
inductive Operand where
  /-- a byte buffer: `char*`, `const char*`, `U8*`, `void*` buffer, array of char, string literal, guest memory itself -/
  | bytes
  /-- `memset`: a fill value, no object at all -/
  | fill
  /-- the pointer is stored in a `struct iovec` that is handed to a readv/writev-like function -/
  | iovBase
  /-- the pointer is passed as a byte-buffer parameter (`char*`, `void*`, …) of the named function -/
  | hostBytes (callee : String)
  /-- a single byte is read or written through the pointer (`p[i]`, `*p` with a byte pointee) -/
  | byteElem
  /-- a new byte-typed pointer variable now aliases guest memory (its later uses are rows of their own) -/
  | alias
  /-- the address of / a pointer to an object wider than a byte (`&wasiFlags`, `U32*`, a struct …; width in bytes, 0 = aggregate
      or unknown type), or guest memory cast to a pointer to such an object: host byte order leaks into guest memory -/
  | object (width : Nat)
  deriving DecidableEq, Repr

/-- only bytes move: the touch is independent of the host's byte order -/
def Operand.movesBytes : Operand → Bool
  | .object _ => false
  | _ => true

inductive Dir where
  | toGuest | fromGuest | na
  deriving DecidableEq, Repr

/-- one raw touch of guest memory in wasi.c -/
structure RawTouch where
  fn : String
  line : Nat
  /-- memcpy / memset / strncpy / iov_base / alias / element / dereference / cast / trace / call <f> -/
  op : String
  dir : Dir
  /-- the guest-memory pointer expression -/
  guest : String
  /-- the other operand as written … -/
  otherExpr : String
  /-- … and its C type as declared in that function -/
  otherTy : String
  other : Operand
  /-- memset: the (constant) length, when it is one -/
  len : Option Nat
  deriving Repr

inductive AccKind where
  | load | store
  deriving DecidableEq, Repr

/-- offset of an access relative to its base pointer variable -/
inductive Off where
  | const (n : Nat)
  /-- `base + i * stride` (an array of cells) -/
  | index (stride : Nat)
  /-- anything else -/
  | dyn
  deriving DecidableEq, Repr

/-- one accessor call in wasi.c -/
structure AccessorCall where
  fn : String
  line : Nat
  accessor : String
  kind : AccKind
  /-- bytes accessed (from the accessor's DEFINE_LOADnn / DEFINE_STOREnn line) -/
  width : Nat
  base : String
  off : Off
  addr : String
  value : String
  deriving Repr

/-! ### the ABI, by hand from the witx -/

/-- a field of a witx record: offset and width in bytes -/
structure Field where
  name : String
  off : Nat
  width : Nat
  deriving DecidableEq, Repr

structure Record where
  size : Nat
  fields : List Field
  deriving Repr

/-- `fdstat`: fs_filetype: filetype(u8) @0, fs_flags: fdflags(u16) @2, fs_rights_base: rights(u64) @8, fs_rights_inheriting @16; size 24 -/
def fdstat : Record := ⟨24, [⟨"fs_filetype", 0, 1⟩, ⟨"fs_flags", 2, 2⟩, ⟨"fs_rights_base", 8, 8⟩, ⟨"fs_rights_inheriting", 16, 8⟩]⟩

/-- `filestat` of wasi_snapshot_preview1 (nlink: linkcount = u64); size 64 -/
def filestatPreview1 : Record := ⟨64, [⟨"dev", 0, 8⟩, ⟨"ino", 8, 8⟩, ⟨"filetype", 16, 1⟩, ⟨"nlink", 24, 8⟩, ⟨"size", 32, 8⟩,
  ⟨"atim", 40, 8⟩, ⟨"mtim", 48, 8⟩, ⟨"ctim", 56, 8⟩]⟩

/-- `filestat` of wasi_unstable (nlink: linkcount = u32); size 56 -/
def filestatUnstable : Record := ⟨56, [⟨"dev", 0, 8⟩, ⟨"ino", 8, 8⟩, ⟨"filetype", 16, 1⟩, ⟨"nlink", 20, 4⟩, ⟨"size", 24, 8⟩,
  ⟨"atim", 32, 8⟩, ⟨"mtim", 40, 8⟩, ⟨"ctim", 48, 8⟩]⟩

/-- `prestat`: tag: u8 @0, u.dir.pr_name_len: size(u32) @4; size 8 -/
def prestat : Record := ⟨8, [⟨"tag", 0, 1⟩, ⟨"pr_name_len", 4, 4⟩]⟩

/-- `dirent`: d_next: dircookie(u64) @0, d_ino: inode(u64) @8, d_namlen: dirnamlen(u32) @16, d_type: filetype(u8) @20; size 24 -/
def dirent : Record := ⟨24, [⟨"d_next", 0, 8⟩, ⟨"d_ino", 8, 8⟩, ⟨"d_namlen", 16, 4⟩, ⟨"d_type", 20, 1⟩]⟩

/-- `iovec` / `ciovec`: buf: pointer(u32) @0, buf_len: size(u32) @4; size 8 -/
def iovec : Record := ⟨8, [⟨"buf", 0, 4⟩, ⟨"buf_len", 4, 4⟩]⟩

/-- (offset, width) of the fields, in declaration order -/
def Record.layout (r : Record) : List (Nat × Nat) := r.fields.map fun f => (f.off, f.width)

/-- a record is well laid out: fields inside the record, in ascending order, not overlapping -/
def Record.wellFormed (r : Record) : Bool :=
  r.fields.all (fun f => f.width ∈ [1, 2, 4, 8] && f.off % f.width == 0 && f.off + f.width ≤ r.size) &&
  (r.fields.zip (r.fields.drop 1)).all (fun (a, b) => a.off + a.width ≤ b.off)

/-- an expected memory cell of the ABI as wasi.c reaches it: in function `fn`, relative to pointer variable `base` -/
structure Cell where
  fn : String
  base : String
  off : Off
  width : Nat
  kind : AccKind
  deriving DecidableEq, Repr

def AccessorCall.cell (a : AccessorCall) : Cell := ⟨a.fn, a.base, a.off, a.width, a.kind⟩

/-- the accessor STORES of function `fn` at constant offsets from pointer `base`, in program order: (offset, width) -/
def storesIn (calls : List AccessorCall) (fn base : String) : List (Nat × Nat) :=
  calls.filterMap fun a =>
    match a.off with
    | .const n => if a.fn = fn ∧ a.base = base ∧ a.kind = .store then some (n, a.width) else none
    | _ => none

/-- the stores of a record by function `fn` through pointer `base`: one cell per field, of exactly the field's width -/
def Record.cells (r : Record) (fn base : String) (kind : AccKind := .store) : List Cell :=
  r.fields.map fun f => ⟨fn, base, .const f.off, f.width, kind⟩

/-- a scalar result cell -/
def result (fn base : String) (width : Nat) : Cell := ⟨fn, base, .const 0, width, .store⟩

/-- Every multi-byte cell the WASI ABI has wasi.c read or write, with its witx width: `size`, `pointer`, `fd` = u32;
    `filesize`, `timestamp`, `dircookie`, `inode`, `device`, `rights` = u64; `fdflags` = u16; `filetype`, prestat tag = u8.
    (Function and pointer names are those of wasi.c; an import body is named by its import, `p1:`/`un:` when the two
    ABIs have separate bodies.) -/
def abiCells : List Cell :=
  -- fd_write / fd_pwrite: ciovec array in, nwritten: size out
  iovec.cells "wasiFDWrite" "ciovecPointer" .load ++ [result "wasiFDWrite" "resultPointer" 4] ++
  -- fd_read / fd_pread: iovec array in, nread: size out
  iovec.cells "wasiFDRead" "iovecPointer" .load ++ [result "wasiFDRead" "resultPointer" 4] ++
  -- environ_sizes_get: (size, size); environ_get: array of pointer(u32)
  [result "environ_sizes_get" "envcPointer" 4, result "environ_sizes_get" "envpBufSizePointer" 4,
   ⟨"wasiEnvironGet", "envpPointer", .index 4, 4, .store⟩,
  -- args_sizes_get / args_get
   result "args_sizes_get" "argcPointer" 4, result "args_sizes_get" "argvBufSizePointer" 4,
   ⟨"wasiArgsGet", "argvPointer", .index 4, 4, .store⟩,
  -- fd_seek / fd_tell: filesize
   result "wasiFDSeek" "resultPointer" 8] ++
  -- fd_readdir: dirent headers, bufused: size
  dirent.cells "wasiFDReaddir" "resultPointer" ++ [result "wasiFDReaddir" "bufferUsedPointer" 4,
  -- clock_time_get / clock_res_get: timestamp
   result "wasiClockTimeGet" "resultPointer" 8, result "wasiClockResGet" "resultPointer" 8] ++
  -- fd_fdstat_get
  fdstat.cells "wasiFdFdstatGet" "resultPointer" ++
  -- fd_prestat_get: the u8 tag is written as the low byte of a 32-bit little-endian store that also zeroes the 3 padding bytes
  [⟨"fd_prestat_get", "prestatPointer", .const 0, 4, .store⟩, ⟨"fd_prestat_get", "prestatPointer", .const 4, 4, .store⟩,
  -- path_open: fd
   result "wasiPathOpen" "fdPointer" 4] ++
  -- fd_filestat_get / path_filestat_get, both ABIs
  filestatPreview1.cells "storePreview1Filestat" "statPointer" ++
  filestatUnstable.cells "storeUnstableFilestat" "statPointer" ++
  -- path_readlink: bufused: size
  [result "wasiPathReadlink" "lengthPointer" 4]

/-- the records that are zero-filled before their fields are stored: (function, record size) -/
def zeroFilled : List (String × Nat) :=
  [("wasiFDReaddir", dirent.size), ("wasiFdFdstatGet", fdstat.size),
   ("storePreview1Filestat", filestatPreview1.size), ("storeUnstableFilestat", filestatUnstable.size)]

end W2c2Verif.Spec.WasiAbi
