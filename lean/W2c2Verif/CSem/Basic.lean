/-
  CSem.Basic — outcomes of evaluating C / Wasm code.

  `Out α` distinguishes an ordinary value from a WebAssembly trap (the embedder's `trap`
  handler is entered with this code), from C undefined behaviour (what UBSan/ASan would
  report; never defaulted to a value) and from running out of fuel.
-/
namespace W2c2Verif

/-- Order is the order of `enum Trap` in `w2c2_base.h` (checked against `Gen.trapEnum`). -/
inductive Trap
  | unreachable | divByZero | intOverflow | invalidConversion | allocationFailed
  deriving DecidableEq, Repr, Inhabited

def Trap.code : Trap → Nat
  | .unreachable => 0 | .divByZero => 1 | .intOverflow => 2
  | .invalidConversion => 3 | .allocationFailed => 4

def Trap.ofCode : Nat → Option Trap
  | 0 => some .unreachable | 1 => some .divByZero | 2 => some .intOverflow
  | 3 => some .invalidConversion | 4 => some .allocationFailed | _ => none

inductive UBKind
  | signedOverflow | shiftTooLarge | divByZero | intMinDivMinusOne | floatToIntRange
  | outOfBounds | misaligned | nullDeref | doubleFree | useAfterFree | overlapCopy
  | bufferOverflow | builtinUndefined | typeError | unboundVar
  deriving DecidableEq, Repr, Inhabited

def UBKind.name : UBKind → String
  | .signedOverflow => "signedOverflow" | .shiftTooLarge => "shiftTooLarge"
  | .divByZero => "divByZero" | .intMinDivMinusOne => "intMinDivMinusOne"
  | .floatToIntRange => "floatToIntRange" | .outOfBounds => "outOfBounds"
  | .misaligned => "misaligned" | .nullDeref => "nullDeref" | .doubleFree => "doubleFree"
  | .useAfterFree => "useAfterFree" | .overlapCopy => "overlapCopy"
  | .bufferOverflow => "bufferOverflow" | .builtinUndefined => "builtinUndefined"
  | .typeError => "typeError" | .unboundVar => "unboundVar"

inductive Out (α : Type) where
  | val (a : α)
  | trap (t : Trap)
  | ub (k : UBKind)
  | oof
  deriving Repr, DecidableEq, Inhabited

namespace Out

@[inline] def bind {α β} (x : Out α) (f : α → Out β) : Out β :=
  match x with
  | .val a => f a
  | .trap t => .trap t
  | .ub k => .ub k
  | .oof => .oof

instance : Monad Out where
  pure := .val
  bind := Out.bind

@[simp] theorem pure_eq {α} (a : α) : (pure a : Out α) = .val a := rfl
@[simp] theorem bind_val {α β} (a : α) (f : α → Out β) : (Out.val a >>= f) = f a := rfl
@[simp] theorem bind_trap {α β} (t : Trap) (f : α → Out β) : (Out.trap t >>= f) = .trap t := rfl
@[simp] theorem bind_ub {α β} (k : UBKind) (f : α → Out β) : (Out.ub k >>= f) = .ub k := rfl
@[simp] theorem bind_oof {α β} (f : α → Out β) : ((Out.oof : Out α) >>= f) = .oof := rfl
@[simp] theorem bind_def_val {α β} (a : α) (f : α → Out β) : Out.bind (.val a) f = f a := rfl
@[simp] theorem bind_def_trap {α β} (t : Trap) (f : α → Out β) : Out.bind (.trap t) f = .trap t := rfl
@[simp] theorem bind_def_ub {α β} (k : UBKind) (f : α → Out β) : Out.bind (.ub k) f = .ub k := rfl
@[simp] theorem bind_def_oof {α β} (f : α → Out β) : Out.bind (.oof : Out α) f = .oof := rfl

def map' {α β} (f : α → β) (x : Out α) : Out β := x >>= fun a => .val (f a)

theorem ite_bind {α β} (c : Prop) [Decidable c] (a b : Out α) (f : α → Out β) :
    ((if c then a else b) >>= f) = if c then a >>= f else b >>= f := by split <;> rfl

def isUB {α} : Out α → Bool | .ub _ => true | _ => false

end Out
end W2c2Verif
