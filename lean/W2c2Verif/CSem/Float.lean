/-
  CSem.Float — IEEE-754 binary32 / binary64 over exact integers (a small soft-float).

  Floats are bit patterns.  Every operation decodes to an exact dyadic value
  `(-1)^s · m · 2^e`, computes exactly over `Nat`/`Int`, and rounds to nearest-even.
  This file is the *specification* of float arithmetic used both by `Spec` (WebAssembly)
  and by `CSem` (the assumption "the C compiler + CPU implement IEEE-754 binary32/64 with
  round-to-nearest-even and no excess precision" is exactly: C's `+ - * / sqrt ceil …` on
  `float`/`double` coincide with these functions; that assumption is exercised on every run
  by the `runtime-ops` correspondence and by the V8 differential).
  NaN results are canonical here; comparisons with an implementation are by NaN *class*.
-/
namespace W2c2Verif.SF

structure Fmt where
  ebits : Nat
  mbits : Nat
  deriving DecidableEq, Repr

def f32 : Fmt := ⟨8, 23⟩
def f64 : Fmt := ⟨11, 52⟩

namespace Fmt
def width (f : Fmt) : Nat := 1 + f.ebits + f.mbits
def bias (f : Fmt) : Int := (2 ^ (f.ebits - 1) : Nat) - 1
/-- exponent of the least significant mantissa bit of subnormals and of the smallest normals -/
def emin (f : Fmt) : Int := 1 - f.bias - f.mbits
def expMax (f : Fmt) : Nat := 2 ^ f.ebits - 1
def prec (f : Fmt) : Nat := f.mbits + 1
end Fmt

/-- decoded float -/
inductive FV where
  | nan
  | inf (s : Bool)
  | fin (s : Bool) (m : Nat) (e : Int)      -- (-1)^s * m * 2^e ; m = 0 is a signed zero
  deriving Repr, DecidableEq, Inhabited

def fracOf (f : Fmt) (b : Nat) : Nat := b % 2 ^ f.mbits
def expOf (f : Fmt) (b : Nat) : Nat := (b / 2 ^ f.mbits) % 2 ^ f.ebits
def signOf (f : Fmt) (b : Nat) : Bool := (b / 2 ^ (f.mbits + f.ebits)) % 2 == 1

def pack (f : Fmt) (s : Bool) (ex frac : Nat) : Nat :=
  (if s then 2 ^ (f.mbits + f.ebits) else 0) + ex * 2 ^ f.mbits + frac

def decode (f : Fmt) (b : Nat) : FV :=
  let frac := fracOf f b
  let ex := expOf f b
  let s := signOf f b
  if ex == f.expMax then (if frac == 0 then .inf s else .nan)
  else if ex == 0 then .fin s frac f.emin
  else .fin s (frac + 2 ^ f.mbits) (f.emin + ((ex : Int) - 1))

def isNaN (f : Fmt) (b : Nat) : Bool := expOf f b == f.expMax && fracOf f b != 0

def canonNaN (f : Fmt) : Nat := pack f false f.expMax (2 ^ (f.mbits - 1))
def infBits (f : Fmt) (s : Bool) : Nat := pack f s f.expMax 0
def zeroBits (f : Fmt) (s : Bool) : Nat := pack f s 0 0

/-- Round `(-1)^s · (m + tail) · 2^e` to nearest-even in format `f`, where `tail ∈ [0,1)` is
    nonzero iff `sticky`.  Callers that pass `sticky = true` supply at least `prec + 2`
    significant bits in `m`. -/
def round (f : Fmt) (s : Bool) (m : Nat) (e : Int) (sticky : Bool := false) : Nat :=
  if m == 0 then zeroBits f s else
  let p := f.prec
  let len : Nat := Nat.log2 m + 1
  let e' : Int := max (e + (len : Int) - (p : Int)) f.emin
  -- shift m so that its lsb has exponent e'
  let (q, e'') :=
    if e' ≤ e then (m <<< (e - e').toNat, e')
    else
      let k := (e' - e).toNat
      let q0 := m >>> k
      let rem := m % 2 ^ k
      let half := 2 ^ (k - 1)
      let up := rem > half || (rem == half && (sticky || q0 % 2 == 1))
      let q1 := if up then q0 + 1 else q0
      if q1 ≥ 2 ^ p then (q1 >>> 1, e' + 1) else (q1, e')
  if q < 2 ^ f.mbits then pack f s 0 q          -- subnormal (e'' = emin) or zero after underflow
  else
    let ex : Int := e'' - f.emin + 1
    if ex ≥ (f.expMax : Int) then infBits f s
    else pack f s ex.toNat (q - 2 ^ f.mbits)

def encode (f : Fmt) : FV → Nat
  | .nan => canonNaN f
  | .inf s => infBits f s
  | .fin s m e => round f s m e

/-- exact signed dyadic `M · 2^e` with `M : Int`, rounding; `zs` = sign to use for an exact zero -/
def roundInt (f : Fmt) (M : Int) (e : Int) (zs : Bool) : Nat :=
  if M == 0 then zeroBits f zs
  else round f (M < 0) M.natAbs e

def add (f : Fmt) (a b : Nat) : Nat :=
  match decode f a, decode f b with
  | .nan, _ => canonNaN f
  | _, .nan => canonNaN f
  | .inf s, .inf t => if s == t then infBits f s else canonNaN f
  | .inf s, _ => infBits f s
  | _, .inf t => infBits f t
  | .fin s m e, .fin t n g =>
    let e0 := min e g
    let M : Int := (if s then -1 else 1) * ((m <<< (e - e0).toNat : Nat) : Int)
                 + (if t then -1 else 1) * ((n <<< (g - e0).toNat : Nat) : Int)
    roundInt f M e0 (s && t)

def neg (f : Fmt) (a : Nat) : Nat :=
  if signOf f a then a - 2 ^ (f.mbits + f.ebits) else a + 2 ^ (f.mbits + f.ebits)

def abs (f : Fmt) (a : Nat) : Nat := a % 2 ^ (f.mbits + f.ebits)

def copysign (f : Fmt) (a b : Nat) : Nat :=
  abs f a + (if signOf f b then 2 ^ (f.mbits + f.ebits) else 0)

def sub (f : Fmt) (a b : Nat) : Nat :=
  if isNaN f b then canonNaN f else add f a (neg f b)

def mul (f : Fmt) (a b : Nat) : Nat :=
  match decode f a, decode f b with
  | .nan, _ => canonNaN f
  | _, .nan => canonNaN f
  | .inf s, .inf t => infBits f (s != t)
  | .inf s, .fin t n _ => if n == 0 then canonNaN f else infBits f (s != t)
  | .fin s m _, .inf t => if m == 0 then canonNaN f else infBits f (s != t)
  | .fin s m e, .fin t n g => round f (s != t) (m * n) (e + g)

def div (f : Fmt) (a b : Nat) : Nat :=
  match decode f a, decode f b with
  | .nan, _ => canonNaN f
  | _, .nan => canonNaN f
  | .inf _, .inf _ => canonNaN f
  | .inf s, .fin t _ _ => infBits f (s != t)
  | .fin s _ _, .inf t => zeroBits f (s != t)
  | .fin s m e, .fin t n g =>
    if n == 0 then (if m == 0 then canonNaN f else infBits f (s != t))
    else if m == 0 then zeroBits f (s != t)
    else
      let lm := Nat.log2 m + 1
      let ln := Nat.log2 n + 1
      let k := (f.prec + 3 + ln) - lm      -- Nat subtraction: 0 when already long enough
      let num := m <<< k
      let q := num / n
      let r := num % n
      round f (s != t) q (e - g - (k : Int)) (r != 0)

def sqrt (f : Fmt) (a : Nat) : Nat :=
  match decode f a with
  | .nan => canonNaN f
  | .inf s => if s then canonNaN f else infBits f false
  | .fin s m e =>
    if m == 0 then zeroBits f s
    else if s then canonNaN f
    else
      let lm := Nat.log2 m + 1
      let k0 := (2 * (f.prec + 3)) - lm
      -- make the exponent even
      let k := if (e - (k0 : Int)) % 2 == 0 then k0 else k0 + 1
      let M := m <<< k
      let r := Nat.sqrt M
      round f false r ((e - (k : Int)) / 2) (r * r != M)

/-- integer-valued roundings; `mode`: 0 = trunc, 1 = floor, 2 = ceil, 3 = nearest-even -/
def rint (f : Fmt) (mode : Nat) (a : Nat) : Nat :=
  match decode f a with
  | .nan => canonNaN f
  | .inf s => infBits f s
  | .fin s m e =>
    if e ≥ 0 || m == 0 then a
    else
      let k := (-e).toNat
      let q := m >>> k
      let rem := m % 2 ^ k
      let half := 2 ^ (k - 1)
      let up : Bool :=
        match mode with
        | 0 => false
        | 1 => s && rem != 0
        | 2 => !s && rem != 0
        | _ => rem > half || (rem == half && q % 2 == 1)
      round f s (if up then q + 1 else q) 0

/-- conversion between formats (promote / demote) -/
def convert (src dst : Fmt) (a : Nat) : Nat := encode dst (decode src a)

def ofInt (f : Fmt) (n : Int) : Nat := roundInt f n 0 false

/-- truncation toward zero of a finite value; `none` for NaN and infinities -/
def truncToInt (f : Fmt) (a : Nat) : Option Int :=
  match decode f a with
  | .nan => none
  | .inf _ => none
  | .fin s m e =>
    let q : Nat := if e ≥ 0 then m <<< e.toNat else m >>> (-e).toNat
    some (if s then -(q : Int) else (q : Int))

/-- total order key of a non-NaN value scaled to a common exponent is avoided: compare exactly -/
def cmpFin (s : Bool) (m : Nat) (e : Int) (t : Bool) (n : Nat) (g : Int) : Ordering :=
  let e0 := min e g
  let A : Int := (if s then -1 else 1) * ((m <<< (e - e0).toNat : Nat) : Int)
  let B : Int := (if t then -1 else 1) * ((n <<< (g - e0).toNat : Nat) : Int)
  compare A B

/-- IEEE comparison; `none` = unordered -/
def cmp (f : Fmt) (a b : Nat) : Option Ordering :=
  match decode f a, decode f b with
  | .nan, _ => none
  | _, .nan => none
  | .inf s, .inf t => some (if s == t then .eq else if s then .lt else .gt)
  | .inf s, .fin _ _ _ => some (if s then .lt else .gt)
  | .fin _ _ _, .inf t => some (if t then .gt else .lt)
  | .fin s m e, .fin t n g => some (cmpFin s m e t n g)

def eq (f : Fmt) (a b : Nat) : Bool := cmp f a b == some .eq
def lt (f : Fmt) (a b : Nat) : Bool := cmp f a b == some .lt
def le (f : Fmt) (a b : Nat) : Bool := cmp f a b == some .lt || cmp f a b == some .eq
def gt (f : Fmt) (a b : Nat) : Bool := cmp f a b == some .gt
def ge (f : Fmt) (a b : Nat) : Bool := cmp f a b == some .gt || cmp f a b == some .eq

def isZero (f : Fmt) (a : Nat) : Bool := abs f a == 0

/-- WebAssembly fmin / fmax -/
def fmin (f : Fmt) (a b : Nat) : Nat :=
  if isNaN f a || isNaN f b then canonNaN f
  else if isZero f a && isZero f b then (if signOf f a then a else b)
  else if lt f a b then a else b

def fmax (f : Fmt) (a b : Nat) : Nat :=
  if isNaN f a || isNaN f b then canonNaN f
  else if isZero f a && isZero f b then (if signOf f a then b else a)
  else if gt f a b then a else b

end W2c2Verif.SF
