/-
  CSem.Mem — linear memory as the C runtime sees it, and the small statement language the
  bodies of the `DEFINE_LOAD* / DEFINE_STORE* / DEFINE_ATOMIC_*` functions of `w2c2_base.h`
  are written in.  Sub-expressions are pure `CExpr`s; everything that touches memory is a
  statement, so each memory statement is one step of the function (used for interleavings).

  `End` is the byte order of the HOST: `memcpy` between an object and memory and a typed
  dereference assemble the object's value from bytes according to the host's byte order.
-/
import W2c2Verif.CSem.Expr

namespace W2c2Verif

inductive End | le | be
  deriving DecidableEq, Repr, Inhabited

structure Mem where
  bytes : Nat → BitVec 8
  size : Nat

namespace Mem

def rd (m : Mem) (a : Nat) : BitVec 8 := m.bytes a

def wr (m : Mem) (a : Nat) (b : BitVec 8) : Mem :=
  { m with bytes := fun i => if i = a then b else m.bytes i }

/-- little-endian assembly of 1/2/4/8 bytes at `a` -/
def readLE8 (m : Mem) (a : Nat) : BitVec 8 := m.rd a
def readLE16 (m : Mem) (a : Nat) : BitVec 16 := m.rd (a + 1) ++ m.rd a
def readLE32 (m : Mem) (a : Nat) : BitVec 32 := m.rd (a + 3) ++ m.rd (a + 2) ++ m.rd (a + 1) ++ m.rd a
def readLE64 (m : Mem) (a : Nat) : BitVec 64 :=
  m.rd (a + 7) ++ m.rd (a + 6) ++ m.rd (a + 5) ++ m.rd (a + 4) ++ m.rd (a + 3) ++ m.rd (a + 2) ++ m.rd (a + 1) ++ m.rd a
def readBE16 (m : Mem) (a : Nat) : BitVec 16 := m.rd a ++ m.rd (a + 1)
def readBE32 (m : Mem) (a : Nat) : BitVec 32 := m.rd a ++ m.rd (a + 1) ++ m.rd (a + 2) ++ m.rd (a + 3)
def readBE64 (m : Mem) (a : Nat) : BitVec 64 :=
  m.rd a ++ m.rd (a + 1) ++ m.rd (a + 2) ++ m.rd (a + 3) ++ m.rd (a + 4) ++ m.rd (a + 5) ++ m.rd (a + 6) ++ m.rd (a + 7)

def writeLE8 (m : Mem) (a : Nat) (v : BitVec 8) : Mem := m.wr a v
def writeLE16 (m : Mem) (a : Nat) (v : BitVec 16) : Mem :=
  (m.wr a (v.extractLsb' 0 8)).wr (a + 1) (v.extractLsb' 8 8)
def writeLE32 (m : Mem) (a : Nat) (v : BitVec 32) : Mem :=
  (((m.wr a (v.extractLsb' 0 8)).wr (a + 1) (v.extractLsb' 8 8)).wr (a + 2) (v.extractLsb' 16 8)).wr (a + 3) (v.extractLsb' 24 8)
def writeLE64 (m : Mem) (a : Nat) (v : BitVec 64) : Mem :=
  (((((((m.wr a (v.extractLsb' 0 8)).wr (a + 1) (v.extractLsb' 8 8)).wr (a + 2) (v.extractLsb' 16 8)).wr (a + 3)
    (v.extractLsb' 24 8)).wr (a + 4) (v.extractLsb' 32 8)).wr (a + 5) (v.extractLsb' 40 8)).wr (a + 6)
    (v.extractLsb' 48 8)).wr (a + 7) (v.extractLsb' 56 8)
def writeBE16 (m : Mem) (a : Nat) (v : BitVec 16) : Mem :=
  (m.wr a (v.extractLsb' 8 8)).wr (a + 1) (v.extractLsb' 0 8)
def writeBE32 (m : Mem) (a : Nat) (v : BitVec 32) : Mem :=
  (((m.wr a (v.extractLsb' 24 8)).wr (a + 1) (v.extractLsb' 16 8)).wr (a + 2) (v.extractLsb' 8 8)).wr (a + 3) (v.extractLsb' 0 8)
def writeBE64 (m : Mem) (a : Nat) (v : BitVec 64) : Mem :=
  (((((((m.wr a (v.extractLsb' 56 8)).wr (a + 1) (v.extractLsb' 48 8)).wr (a + 2) (v.extractLsb' 40 8)).wr (a + 3)
    (v.extractLsb' 32 8)).wr (a + 4) (v.extractLsb' 24 8)).wr (a + 5) (v.extractLsb' 16 8)).wr (a + 6)
    (v.extractLsb' 8 8)).wr (a + 7) (v.extractLsb' 0 8)

end Mem

def CTy.bytes : CTy → Nat
  | .u8 | .i8 => 1 | .u16 | .i16 => 2 | .u32 | .i32 | .f32 => 4 | .u64 | .i64 | .f64 => 8

/-- the object representation of type `t` at address `a` on a host of byte order `e` -/
def Mem.hostRead (m : Mem) (e : End) (t : CTy) (a : Nat) : CVal :=
  match t, e with
  | .u8, _ => .u8 (m.readLE8 a) | .i8, _ => .i8 (m.readLE8 a)
  | .u16, .le => .u16 (m.readLE16 a) | .u16, .be => .u16 (m.readBE16 a)
  | .i16, .le => .i16 (m.readLE16 a) | .i16, .be => .i16 (m.readBE16 a)
  | .u32, .le => .u32 (m.readLE32 a) | .u32, .be => .u32 (m.readBE32 a)
  | .i32, .le => .i32 (m.readLE32 a) | .i32, .be => .i32 (m.readBE32 a)
  | .f32, .le => .f32 (m.readLE32 a) | .f32, .be => .f32 (m.readBE32 a)
  | .u64, .le => .u64 (m.readLE64 a) | .u64, .be => .u64 (m.readBE64 a)
  | .i64, .le => .i64 (m.readLE64 a) | .i64, .be => .i64 (m.readBE64 a)
  | .f64, .le => .f64 (m.readLE64 a) | .f64, .be => .f64 (m.readBE64 a)

def Mem.hostWrite (m : Mem) (e : End) (a : Nat) (v : CVal) : Mem :=
  match v, e with
  | .u8 x, _ | .i8 x, _ => m.writeLE8 a x
  | .u16 x, .le | .i16 x, .le => m.writeLE16 a x
  | .u16 x, .be | .i16 x, .be => m.writeBE16 a x
  | .u32 x, .le | .i32 x, .le | .f32 x, .le => m.writeLE32 a x
  | .u32 x, .be | .i32 x, .be | .f32 x, .be => m.writeBE32 a x
  | .u64 x, .le | .i64 x, .le | .f64 x, .le => m.writeLE64 a x
  | .u64 x, .be | .i64 x, .be | .f64 x, .be => m.writeBE64 a x

/-- reinterpretation of an object's bytes as another type of the same size (`memcpy` between objects) -/
def CVal.reinterpret (t : CTy) (v : CVal) : Out CVal :=
  if t.bytes = v.ty.bytes then .val (CVal.ofBits t v.bits) else .ub .typeError

inductive RmwOp | add | sub | and | or | xor | xchg
  deriving DecidableEq, Repr, Inhabited

def RmwOp.apply {w : Nat} (op : RmwOp) (old v : BitVec w) : BitVec w :=
  match op with
  | .add => old + v | .sub => old - v | .and => old &&& v | .or => old ||| v | .xor => old ^^^ v | .xchg => v

/-- statements of the memory accessor functions -/
inductive MStmt
  | declUninit (n : String) (t : CTy)                         -- `t n;`
  | decl (n : String) (t : CTy) (e : CExpr)                   -- `t n = e;`
  | assign (n : String) (e : CExpr)                           -- `n = e;`
  | memcpyFromMem (dst : String) (addr : CExpr) (len : Nat)   -- `memcpy(&dst, &mem->data[addr], len)`
  | memcpyToMem (addr : CExpr) (src : String) (len : Nat)     -- `memcpy(&mem->data[addr], &src, len)`
  | memcpyVar (dst src : String) (len : Nat)                  -- `memcpy(&dst, &src, len)`
  | derefLoad (dst : String) (t : CTy) (addr : CExpr)         -- `dst = *(t*)(mem->data + addr)` (typed access)
  | derefStore (t : CTy) (addr : CExpr) (v : CExpr)           -- `*(t*)(mem->data + addr) = v`
  | atomicLoad (dst : String) (t : CTy) (addr : CExpr)        -- `dst = __atomic_load_n((t*)&mem->data[addr], SEQ_CST)`
  | atomicStore (t : CTy) (addr : CExpr) (v : CExpr)          -- `__atomic_store_n(…, v, SEQ_CST)`
  | atomicRmw (dst : String) (op : RmwOp) (t : CTy) (addr : CExpr) (v : CExpr)   -- `dst = __atomic_fetch_<op>/exchange_n(…)`
  | atomicCas (dst : String) (t : CTy) (addr : CExpr) (expectedVar : String) (desired : CExpr)
      -- `dst = (__atomic_compare_exchange_n(p, &expectedVar, desired, 0, SEQ_CST, SEQ_CST), expectedVar)`
  | lock | unlock                                             -- WASM_MUTEX_LOCK/UNLOCK(&mem->mutex)
  | ifThen (c : CExpr) (body : MStmt)
  | seq (a b : MStmt)
  | skip
  | ret (e : CExpr)
  | retVoid
  deriving Repr, Inhabited

structure MState where
  env : Env
  mem : Mem
  locked : Bool := false

inductive MFlow | next (s : MState) | ret (v : Option CVal) (s : MState)

/-- an address operand as a natural number (negative signed values are out of bounds) -/
def CVal.toAddr : CVal → Out Nat
  | .u8 v => .val v.toNat | .u16 v => .val v.toNat | .u32 v => .val v.toNat | .u64 v => .val v.toNat
  | .i8 v => if v.msb then .ub .outOfBounds else .val v.toNat
  | .i16 v => if v.msb then .ub .outOfBounds else .val v.toNat
  | .i32 v => if v.msb then .ub .outOfBounds else .val v.toNat
  | .i64 v => if v.msb then .ub .outOfBounds else .val v.toNat
  | _ => .ub .typeError

@[simp] theorem CVal.toAddr_u64 (v) : (CVal.u64 v).toAddr = .val v.toNat := rfl
@[simp] theorem CVal.toAddr_u32 (v) : (CVal.u32 v).toAddr = .val v.toNat := rfl

def addrOf (defs : Defs) (ρ : Env) (e : CExpr) : Out Nat := do
  let v ← e.eval defs ρ
  v.toAddr

def inBounds (m : Mem) (a n : Nat) : Bool := a + n ≤ m.size

def MStmt.exec (defs : Defs) (e : End) : MStmt → MState → Out MFlow
  | .skip, s => .val (.next s)
  | .seq a b, s => do
    match ← a.exec defs e s with
    | .next s' => b.exec defs e s'
    | .ret v s' => .val (.ret v s')
  | .declUninit n t, s => .val (.next { s with env := (n, CVal.ofBits t 0) :: s.env })
  | .decl n t ex, s => do
    let v ← ex.eval defs s.env
    let v' ← v.castInt t
    .val (.next { s with env := (n, v') :: s.env })
  | .assign n ex, s => do
    let some old := s.env.get n | .ub .unboundVar
    let v ← ex.eval defs s.env
    let v' ← v.castInt old.ty
    .val (.next { s with env := s.env.set n v' })
  | .memcpyFromMem dst addr len, s => do
    let some old := s.env.get dst | .ub .unboundVar
    let a ← addrOf defs s.env addr
    if old.ty.bytes ≠ len then .ub .bufferOverflow
    else if !inBounds s.mem a len then .ub .outOfBounds
    else .val (.next { s with env := s.env.set dst (s.mem.hostRead e old.ty a) })
  | .memcpyToMem addr src len, s => do
    let some v := s.env.get src | .ub .unboundVar
    let a ← addrOf defs s.env addr
    if v.ty.bytes ≠ len then .ub .bufferOverflow
    else if !inBounds s.mem a len then .ub .outOfBounds
    else .val (.next { s with mem := s.mem.hostWrite e a v })
  | .memcpyVar dst src len, s => do
    let some old := s.env.get dst | .ub .unboundVar
    let some v := s.env.get src | .ub .unboundVar
    if old.ty.bytes ≠ len ∨ v.ty.bytes ≠ len then .ub .bufferOverflow
    else do
      let r ← v.reinterpret old.ty
      .val (.next { s with env := s.env.set dst r })
  | .derefLoad dst t addr, s => do
    let some old := s.env.get dst | .ub .unboundVar
    let a ← addrOf defs s.env addr
    if !inBounds s.mem a t.bytes then .ub .outOfBounds
    else if a % t.bytes ≠ 0 then .ub .misaligned
    else do
      let v' ← (s.mem.hostRead e t a).castInt old.ty
      .val (.next { s with env := s.env.set dst v' })
  | .derefStore t addr ex, s => do
    let a ← addrOf defs s.env addr
    let v ← ex.eval defs s.env
    let v' ← v.castInt t
    if !inBounds s.mem a t.bytes then .ub .outOfBounds
    else if a % t.bytes ≠ 0 then .ub .misaligned
    else .val (.next { s with mem := s.mem.hostWrite e a v' })
  | .atomicLoad dst t addr, s => do
    let some old := s.env.get dst | .ub .unboundVar
    let a ← addrOf defs s.env addr
    if !inBounds s.mem a t.bytes then .ub .outOfBounds
    else if a % t.bytes ≠ 0 then .ub .misaligned
    else do
      let v' ← (s.mem.hostRead e t a).castInt old.ty
      .val (.next { s with env := s.env.set dst v' })
  | .atomicStore t addr ex, s => do
    let a ← addrOf defs s.env addr
    let v ← ex.eval defs s.env
    let v' ← v.castInt t
    if !inBounds s.mem a t.bytes then .ub .outOfBounds
    else if a % t.bytes ≠ 0 then .ub .misaligned
    else .val (.next { s with mem := s.mem.hostWrite e a v' })
  | .atomicRmw dst op t addr ex, s => do
    let a ← addrOf defs s.env addr
    let v ← ex.eval defs s.env
    let v' ← v.castInt t
    if !inBounds s.mem a t.bytes then .ub .outOfBounds
    else if a % t.bytes ≠ 0 then .ub .misaligned
    else
      let old := s.mem.hostRead e t a
      let new : Out CVal := match old, v' with
        | .u8 x, .u8 y => .val (.u8 (op.apply x y)) | .u16 x, .u16 y => .val (.u16 (op.apply x y))
        | .u32 x, .u32 y => .val (.u32 (op.apply x y)) | .u64 x, .u64 y => .val (.u64 (op.apply x y))
        | _, _ => .ub .typeError
      do
        let nv ← new
        let r ← old.castInt t
        .val (.next { s with env := (dst, r) :: s.env, mem := s.mem.hostWrite e a nv })
  | .atomicCas dst t addr expectedVar desired, s => do
    let a ← addrOf defs s.env addr
    let some ex := s.env.get expectedVar | .ub .unboundVar
    let d ← desired.eval defs s.env
    let d' ← d.castInt t
    if ex.ty ≠ t then .ub .typeError
    else if !inBounds s.mem a t.bytes then .ub .outOfBounds
    else if a % t.bytes ≠ 0 then .ub .misaligned
    else
      let old := s.mem.hostRead e t a
      if old.bits = ex.bits then
        .val (.next { s with env := (dst, old) :: s.env, mem := s.mem.hostWrite e a d' })
      else
        -- on failure the builtin stores the current value into *expected; the macro then reads it
        .val (.next { s with env := (dst, old) :: (s.env.set expectedVar old) })
  | .lock, s => if s.locked then .ub .typeError else .val (.next { s with locked := true })
  | .unlock, s => if s.locked then .val (.next { s with locked := false }) else .ub .typeError
  | .ifThen c body, s => do
    let x ← c.eval defs s.env
    if x.truthy then body.exec defs e s else .val (.next s)
  | .ret ex, s => do let v ← ex.eval defs s.env; .val (.ret (some v) s)
  | .retVoid, s => .val (.ret none s)

structure MFunc where
  params : List (String × CTy)     -- after the `wasmMemory* mem` parameter
  ret : Option CTy
  body : MStmt

/-- call a memory accessor: returns the (converted) result and the new memory -/
def MFunc.call (defs : Defs) (e : End) (f : MFunc) (m : Mem) (args : List CVal) : Out (Option CVal × Mem) := do
  let ρ ← bindParams f.params args
  match ← f.body.exec defs e { env := ρ, mem := m } with
  | .ret (some v) s =>
    match f.ret with
    | some t => do let v' ← v.castInt t; .val (some v', s.mem)
    | none => .ub .typeError
  | .ret none s => match f.ret with | none => .val (none, s.mem) | some _ => .ub .typeError
  | .next s => match f.ret with | none => .val (none, s.mem) | some _ => .ub .typeError

/-! ## the bulk-memory helpers (wasmMemoryCopy / wasmMemoryFill / load_data / LOAD_DATA): each is ONE call -/

/-- argument of that call: `mem->data + addr` / `&((mem).data[addr])`, or a parameter (integer casts dropped) -/
inductive BArg | memPlus (mem addr : String) | var (v : String)
  deriving DecidableEq, Repr, Inhabited

structure BulkFn where
  params : List String
  callee : String
  args : List BArg
  deriving Repr, Inhabited

end W2c2Verif
