/-
  CSem.Defs — turn generated macro / function tables into the `Defs` environment that
  `CExpr.eval` consults for calls.  Layered, because the fallback `I32_CTZ` calls `I32_CLZ`.
-/
import W2c2Verif.CSem.Expr

namespace W2c2Verif

def noDefs : Defs := fun _ => none

def lookupAssoc {α} (l : List (String × α)) (n : String) : Option α :=
  match l with
  | [] => none
  | (k, v) :: r => if k = n then some v else lookupAssoc r n

def defsOfMacros (ms : List (String × CMacro)) (inner : Defs) : Defs := fun n =>
  match lookupAssoc ms n with
  | some m => some { retTy := m.retTy inner, sem := m.call inner }
  | none => inner n

def defsOfFuncs (fs : List (String × CFunc)) (inner : Defs) : Defs := fun n =>
  match lookupAssoc fs n with
  | some f => some { retTy := fun _ => f.ret, sem := f.call inner }
  | none => inner n

end W2c2Verif
