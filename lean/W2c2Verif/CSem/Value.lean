/-
  CSem.Value — C scalar types and values of the fragment used by `w2c2_base.h` and by the
  code w2c2 emits, with the conversions C prescribes.

  Implementation-defined choices fixed as gcc and clang document them (trusted base):
  * conversion of an out-of-range value to a signed integer type is modular;
  * `>>` on a negative signed value is an arithmetic shift.
-/
import W2c2Verif.CSem.Basic
import W2c2Verif.CSem.Float

namespace W2c2Verif

inductive CTy
  | u8 | i8 | u16 | i16 | u32 | i32 | u64 | i64 | f32 | f64
  deriving DecidableEq, Repr, Inhabited

namespace CTy
def name : CTy → String
  | u8 => "U8" | i8 => "I8" | u16 => "U16" | i16 => "I16" | u32 => "U32" | i32 => "I32"
  | u64 => "U64" | i64 => "I64" | f32 => "F32" | f64 => "F64"
def ofName : String → Option CTy
  | "U8" => some u8 | "I8" => some i8 | "U16" => some u16 | "I16" => some i16
  | "U32" => some u32 | "I32" => some i32 | "U64" => some u64 | "I64" => some i64
  | "F32" => some f32 | "F64" => some f64 | _ => none
def isFloat : CTy → Bool | f32 | f64 => true | _ => false
/-- integer promotion: everything narrower than `int` becomes `int` -/
def promote : CTy → CTy
  | u8 | i8 | u16 | i16 => i32
  | t => t
/-- usual arithmetic conversions on promoted types -/
def common (a b : CTy) : CTy :=
  match a.promote, b.promote with
  | f64, _ | _, f64 => f64
  | f32, _ | _, f32 => f32
  | u64, _ | _, u64 => u64
  | i64, _ | _, i64 => i64          -- long long holds every unsigned int
  | u32, _ | _, u32 => u32
  | _, _ => i32
end CTy

inductive CVal
  | u8 (v : BitVec 8) | i8 (v : BitVec 8) | u16 (v : BitVec 16) | i16 (v : BitVec 16)
  | u32 (v : BitVec 32) | i32 (v : BitVec 32) | u64 (v : BitVec 64) | i64 (v : BitVec 64)
  | f32 (b : BitVec 32) | f64 (b : BitVec 64)
  deriving DecidableEq, Repr, Inhabited

namespace CVal

def ty : CVal → CTy
  | u8 _ => .u8 | i8 _ => .i8 | u16 _ => .u16 | i16 _ => .i16 | u32 _ => .u32 | i32 _ => .i32
  | u64 _ => .u64 | i64 _ => .i64 | f32 _ => .f32 | f64 _ => .f64

/-- mathematical value of an integer-typed value -/
def toInt? : CVal → Option Int
  | u8 v => some v.toNat | i8 v => some v.toInt | u16 v => some v.toNat | i16 v => some v.toInt
  | u32 v => some v.toNat | i32 v => some v.toInt | u64 v => some v.toNat | i64 v => some v.toInt
  | _ => none

/-- raw bits, zero-extended (for the line protocol) -/
def bits : CVal → Nat
  | u8 v | i8 v => v.toNat | u16 v | i16 v => v.toNat | u32 v | i32 v | f32 v => v.toNat
  | u64 v | i64 v | f64 v => v.toNat

def ofBits (t : CTy) (n : Nat) : CVal :=
  match t with
  | .u8 => u8 (BitVec.ofNat 8 n) | .i8 => i8 (BitVec.ofNat 8 n)
  | .u16 => u16 (BitVec.ofNat 16 n) | .i16 => i16 (BitVec.ofNat 16 n)
  | .u32 => u32 (BitVec.ofNat 32 n) | .i32 => i32 (BitVec.ofNat 32 n)
  | .u64 => u64 (BitVec.ofNat 64 n) | .i64 => i64 (BitVec.ofNat 64 n)
  | .f32 => f32 (BitVec.ofNat 32 n) | .f64 => f64 (BitVec.ofNat 64 n)

/-- modular conversion of a mathematical integer to an integer type -/
def ofIntTy (t : CTy) (n : Int) : CVal :=
  match t with
  | .u8 => u8 (BitVec.ofInt 8 n) | .i8 => i8 (BitVec.ofInt 8 n)
  | .u16 => u16 (BitVec.ofInt 16 n) | .i16 => i16 (BitVec.ofInt 16 n)
  | .u32 => u32 (BitVec.ofInt 32 n) | .i32 => i32 (BitVec.ofInt 32 n)
  | .u64 => u64 (BitVec.ofInt 64 n) | .i64 => i64 (BitVec.ofInt 64 n)
  | .f32 => f32 (BitVec.ofNat 32 (SF.ofInt SF.f32 n)) | .f64 => f64 (BitVec.ofNat 64 (SF.ofInt SF.f64 n))

/-- range of an integer type as mathematical integers -/
def tyRange : CTy → Int × Int
  | .u8 => (0, 255) | .i8 => (-128, 127) | .u16 => (0, 65535) | .i16 => (-32768, 32767)
  | .u32 => (0, 4294967295) | .i32 => (-2147483648, 2147483647)
  | .u64 => (0, 18446744073709551615) | .i64 => (-9223372036854775808, 9223372036854775807)
  | _ => (0, 0)

/-- conversion from a floating value: float→float is exact/rounded by `SF.convert`;
    float→integer truncates toward zero and is undefined behaviour (C11 6.3.1.4) when the
    truncated value is not representable in the target type (incl. NaN and infinities). -/
def fromFloat (t : CTy) (fmt : SF.Fmt) (b : Nat) : Out CVal :=
  match t with
  | .f32 => .val (f32 (BitVec.ofNat 32 (SF.convert fmt SF.f32 b)))
  | .f64 => .val (f64 (BitVec.ofNat 64 (SF.convert fmt SF.f64 b)))
  | _ =>
    match SF.truncToInt fmt b with
    | none => .ub .floatToIntRange
    | some n =>
      if (tyRange t).1 ≤ n ∧ n ≤ (tyRange t).2 then .val (ofIntTy t n) else .ub .floatToIntRange

/-- conversion of an unsigned source of width `w`: zero-extend / truncate (floats: exact value, rounded) -/
def fromNat (t : CTy) (w : Nat) (x : BitVec w) : CVal :=
  match t with
  | .u8 => u8 (x.setWidth 8) | .i8 => i8 (x.setWidth 8)
  | .u16 => u16 (x.setWidth 16) | .i16 => i16 (x.setWidth 16)
  | .u32 => u32 (x.setWidth 32) | .i32 => i32 (x.setWidth 32)
  | .u64 => u64 (x.setWidth 64) | .i64 => i64 (x.setWidth 64)
  | .f32 => f32 (BitVec.ofNat 32 (SF.ofInt SF.f32 x.toNat))
  | .f64 => f64 (BitVec.ofNat 64 (SF.ofInt SF.f64 x.toNat))

/-- conversion of a signed source of width `w`: sign-extend / truncate -/
def fromInt (t : CTy) (w : Nat) (x : BitVec w) : CVal :=
  match t with
  | .u8 => u8 (x.signExtend 8) | .i8 => i8 (x.signExtend 8)
  | .u16 => u16 (x.signExtend 16) | .i16 => i16 (x.signExtend 16)
  | .u32 => u32 (x.signExtend 32) | .i32 => i32 (x.signExtend 32)
  | .u64 => u64 (x.signExtend 64) | .i64 => i64 (x.signExtend 64)
  | .f32 => f32 (BitVec.ofNat 32 (SF.ofInt SF.f32 x.toInt))
  | .f64 => f64 (BitVec.ofNat 64 (SF.ofInt SF.f64 x.toInt))

/-- C conversion `(t)v`.  Defined by cases on the constructor of `v` so that simplification
    only fires on evaluated operands. -/
def castInt (t : CTy) : CVal → Out CVal
  | u8 x => .val (fromNat t 8 x) | u16 x => .val (fromNat t 16 x)
  | u32 x => .val (fromNat t 32 x) | u64 x => .val (fromNat t 64 x)
  | i8 x => .val (fromInt t 8 x) | i16 x => .val (fromInt t 16 x)
  | i32 x => .val (fromInt t 32 x) | i64 x => .val (fromInt t 64 x)
  | f32 b => if t = .f32 then .val (f32 b) else fromFloat t SF.f32 b.toNat
  | f64 b => if t = .f64 then .val (f64 b) else fromFloat t SF.f64 b.toNat

@[simp] theorem castInt_u8 (t x) : castInt t (u8 x) = .val (fromNat t 8 x) := rfl
@[simp] theorem castInt_u16 (t x) : castInt t (u16 x) = .val (fromNat t 16 x) := rfl
@[simp] theorem castInt_u32 (t x) : castInt t (u32 x) = .val (fromNat t 32 x) := rfl
@[simp] theorem castInt_u64 (t x) : castInt t (u64 x) = .val (fromNat t 64 x) := rfl
@[simp] theorem castInt_i8 (t x) : castInt t (i8 x) = .val (fromInt t 8 x) := rfl
@[simp] theorem castInt_i16 (t x) : castInt t (i16 x) = .val (fromInt t 16 x) := rfl
@[simp] theorem castInt_i32 (t x) : castInt t (i32 x) = .val (fromInt t 32 x) := rfl
@[simp] theorem castInt_i64 (t x) : castInt t (i64 x) = .val (fromInt t 64 x) := rfl
@[simp] theorem castInt_f32 (t b) : castInt t (f32 b) = if t = .f32 then .val (f32 b) else fromFloat t SF.f32 b.toNat := rfl
@[simp] theorem castInt_f64 (t b) : castInt t (f64 b) = if t = .f64 then .val (f64 b) else fromFloat t SF.f64 b.toNat := rfl

/-- truth value of a scalar used as a condition -/
def truthy : CVal → Bool
  | u8 v | i8 v => v != 0 | u16 v | i16 v => v != 0 | u32 v | i32 v => v != 0
  | u64 v | i64 v => v != 0
  | f32 b => !SF.isZero SF.f32 b.toNat
  | f64 b => !SF.isZero SF.f64 b.toNat

def ofBool (b : Bool) : CVal := i32 (if b then 1 else 0)

end CVal
end W2c2Verif
