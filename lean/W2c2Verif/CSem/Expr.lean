/-
  CSem.Expr — deep embedding of the C expression / statement fragment that the macros and
  inline functions of `w2c2_base.h` and the statements emitted by w2c2 are written in, with a
  typed evaluator that tracks undefined behaviour.

  The ASTs themselves are *generated from the C source* (`Gen/*.lean`, by tools/extract) or
  produced by the model of the emitter (`Model/Emit.lean`); this file gives them meaning.
-/
import W2c2Verif.CSem.Value

namespace W2c2Verif

inductive UnOp | neg | lnot | bnot
  deriving DecidableEq, Repr, Inhabited

inductive BinOp
  | add | sub | mul | div | rem | shl | shr | band | bor | bxor
  | eq | ne | lt | le | gt | ge | land | lor
  deriving DecidableEq, Repr, Inhabited

def BinOp.isCmp : BinOp → Bool
  | .eq | .ne | .lt | .le | .gt | .ge => true
  | _ => false

inductive CExpr
  | var (n : String)
  | lit (v : CVal)
  | cast (t : CTy) (e : CExpr)
  | un (op : UnOp) (e : CExpr)
  | bin (op : BinOp) (a b : CExpr)
  | cond (c a b : CExpr)
  | trap (t : Trap)                        -- `TRAP(t)` i.e. `(trap(t), 0)`
  | call1 (f : String) (a : CExpr)
  | call2 (f : String) (a b : CExpr)
  deriving Repr, Inhabited, DecidableEq

/-! ### integer primitives on bit vectors -/

namespace CPrim

/-- unsigned arithmetic at width `w` (wraps; division by zero is UB) -/
def arithU {w : Nat} (op : BinOp) (x y : BitVec w) : Out (BitVec w) :=
  match op with
  | .add => .val (x + y) | .sub => .val (x - y) | .mul => .val (x * y)
  | .div => if y = 0 then .ub .divByZero else .val (x / y)
  | .rem => if y = 0 then .ub .divByZero else .val (x % y)
  | .band => .val (x &&& y) | .bor => .val (x ||| y) | .bxor => .val (x ^^^ y)
  | _ => .ub .typeError

/-- signed arithmetic at width `w` (overflow is UB) -/
def arithS {w : Nat} (op : BinOp) (x y : BitVec w) : Out (BitVec w) :=
  match op with
  | .add => if BitVec.saddOverflow x y then .ub .signedOverflow else .val (x + y)
  | .sub => if BitVec.ssubOverflow x y then .ub .signedOverflow else .val (x - y)
  | .mul => if BitVec.smulOverflow x y then .ub .signedOverflow else .val (x * y)
  | .div => if y = 0 then .ub .divByZero
            else if x = BitVec.intMin w ∧ y = -1 then .ub .intMinDivMinusOne
            else .val (x.sdiv y)
  | .rem => if y = 0 then .ub .divByZero
            else if x = BitVec.intMin w ∧ y = -1 then .ub .intMinDivMinusOne
            else .val (x.srem y)
  | .band => .val (x &&& y) | .bor => .val (x ||| y) | .bxor => .val (x ^^^ y)
  | _ => .ub .typeError

def cmpU {w : Nat} (op : BinOp) (x y : BitVec w) : Bool :=
  match op with
  | .eq => x == y | .ne => x != y | .lt => x.ult y | .le => x.ule y
  | .gt => y.ult x | .ge => y.ule x | _ => false

def cmpS {w : Nat} (op : BinOp) (x y : BitVec w) : Bool :=
  match op with
  | .eq => x == y | .ne => x != y | .lt => x.slt y | .le => x.sle y
  | .gt => y.slt x | .ge => y.sle x | _ => false

def cmpF (f : SF.Fmt) (op : BinOp) (x y : Nat) : Bool :=
  match op with
  | .eq => SF.eq f x y | .ne => !SF.eq f x y | .lt => SF.lt f x y | .le => SF.le f x y
  | .gt => SF.gt f x y | .ge => SF.ge f x y | _ => false

def arithF (f : SF.Fmt) (op : BinOp) (x y : Nat) : Out Nat :=
  match op with
  | .add => .val (SF.add f x y) | .sub => .val (SF.sub f x y)
  | .mul => .val (SF.mul f x y) | .div => .val (SF.div f x y)
  | _ => .ub .typeError

/-- a shift count is acceptable iff it is non-negative and smaller than the width of the
    (promoted) left operand; phrased on bit vectors (`w < 2^v` for every C type here) -/
def amtOk {v : Nat} (signed : Bool) (n : BitVec v) (w : Nat) : Bool :=
  !(signed && n.msb) && n.ult (BitVec.ofNat v w)

/-- shifts: the result has the (promoted) type of the left operand -/
def shiftU {w v : Nat} (op : BinOp) (x : BitVec w) (n : BitVec v) : Out (BitVec w) :=
  match op with
  | .shl => .val (x <<< n)
  | .shr => .val (x >>> n)
  | _ => .ub .typeError

def shiftS {w v : Nat} (op : BinOp) (x : BitVec w) (n : BitVec v) : Out (BitVec w) :=
  match op with
  | .shl => if x.msb || (x <<< n).sshiftRight' n != x then .ub .signedOverflow
            else .val (x <<< n)
  | .shr => .val (x.sshiftRight' n)        -- arithmetic (gcc/clang, documented)
  | _ => .ub .typeError

/-- number of leading zero bits (documented meaning of `__builtin_clz*` for nonzero input) -/
def clz {w : Nat} (x : BitVec w) : Nat := (BitVec.clz x).toNat
/-- number of trailing zero bits -/
def ctz {w : Nat} (x : BitVec w) : Nat := (BitVec.ctz x).toNat
/-- number of one bits -/
def popcount {w : Nat} (x : BitVec w) : Nat := (BitVec.cpop x).toNat

def bswap16 (x : BitVec 16) : BitVec 16 := (x.extractLsb' 0 8 ++ x.extractLsb' 8 8)
def bswap32 (x : BitVec 32) : BitVec 32 :=
  (x.extractLsb' 0 8 ++ x.extractLsb' 8 8 ++ x.extractLsb' 16 8 ++ x.extractLsb' 24 8)
def bswap64 (x : BitVec 64) : BitVec 64 :=
  (x.extractLsb' 0 8 ++ x.extractLsb' 8 8 ++ x.extractLsb' 16 8 ++ x.extractLsb' 24 8 ++
   x.extractLsb' 32 8 ++ x.extractLsb' 40 8 ++ x.extractLsb' 48 8 ++ x.extractLsb' 56 8)

end CPrim

open CPrim in
/-- binary arithmetic / bitwise / comparison after the usual arithmetic conversions -/
def CVal.binop (op : BinOp) (a b : CVal) : Out CVal := do
  let t := CTy.common a.ty b.ty
  let a' ← a.castInt t
  let b' ← b.castInt t
  match a', b' with
  | .u32 x, .u32 y => if op.isCmp then .val (.ofBool (cmpU op x y)) else (do let r ← arithU op x y; .val (.u32 r))
  | .i32 x, .i32 y => if op.isCmp then .val (.ofBool (cmpS op x y)) else (do let r ← arithS op x y; .val (.i32 r))
  | .u64 x, .u64 y => if op.isCmp then .val (.ofBool (cmpU op x y)) else (do let r ← arithU op x y; .val (.u64 r))
  | .i64 x, .i64 y => if op.isCmp then .val (.ofBool (cmpS op x y)) else (do let r ← arithS op x y; .val (.i64 r))
  | .f32 x, .f32 y =>
    if op.isCmp then .val (.ofBool (cmpF SF.f32 op x.toNat y.toNat))
    else (do let n ← arithF SF.f32 op x.toNat y.toNat; .val (.f32 (BitVec.ofNat 32 n)))
  | .f64 x, .f64 y =>
    if op.isCmp then .val (.ofBool (cmpF SF.f64 op x.toNat y.toNat))
    else (do let n ← arithF SF.f64 op x.toNat y.toNat; .val (.f64 (BitVec.ofNat 64 n)))
  | _, _ => .ub .typeError

open CPrim in
/-- run `k` on the shift count if it is acceptable for a left operand of width `w` -/
def CVal.withAmt {β : Type} (b : CVal) (w : Nat) (k : {v : Nat} → BitVec v → Out β) : Out β :=
  match b with
  | .u8 n => if amtOk false n w then k n else .ub .shiftTooLarge
  | .i8 n => if amtOk true n w then k n else .ub .shiftTooLarge
  | .u16 n => if amtOk false n w then k n else .ub .shiftTooLarge
  | .i16 n => if amtOk true n w then k n else .ub .shiftTooLarge
  | .u32 n => if amtOk false n w then k n else .ub .shiftTooLarge
  | .i32 n => if amtOk true n w then k n else .ub .shiftTooLarge
  | .u64 n => if amtOk false n w then k n else .ub .shiftTooLarge
  | .i64 n => if amtOk true n w then k n else .ub .shiftTooLarge
  | _ => .ub .typeError

open CPrim in
def CVal.shift (op : BinOp) (a b : CVal) : Out CVal := do
  let a' ← a.castInt a.ty.promote
  match a' with
  | .u32 x => b.withAmt 32 fun n => do let r ← shiftU op x n; .val (.u32 r)
  | .i32 x => b.withAmt 32 fun n => do let r ← shiftS op x n; .val (.i32 r)
  | .u64 x => b.withAmt 64 fun n => do let r ← shiftU op x n; .val (.u64 r)
  | .i64 x => b.withAmt 64 fun n => do let r ← shiftS op x n; .val (.i64 r)
  | _ => .ub .typeError

open CPrim in
def CVal.unop (op : UnOp) (a : CVal) : Out CVal := do
  match op with
  | .lnot => .val (.ofBool (!a.truthy))
  | .neg =>
    let a' ← a.castInt a.ty.promote
    match a' with
    | .u32 x => .val (.u32 (-x))
    | .u64 x => .val (.u64 (-x))
    | .i32 x => if BitVec.negOverflow x then .ub .signedOverflow else .val (.i32 (-x))
    | .i64 x => if BitVec.negOverflow x then .ub .signedOverflow else .val (.i64 (-x))
    | .f32 x => .val (.f32 (BitVec.ofNat 32 (SF.neg SF.f32 x.toNat)))
    | .f64 x => .val (.f64 (BitVec.ofNat 64 (SF.neg SF.f64 x.toNat)))
    | _ => .ub .typeError
  | .bnot =>
    let a' ← a.castInt a.ty.promote
    match a' with
    | .u32 x => .val (.u32 (~~~x)) | .u64 x => .val (.u64 (~~~x))
    | .i32 x => .val (.i32 (~~~x)) | .i64 x => .val (.i64 (~~~x))
    | _ => .ub .typeError

/-! ### library / compiler builtins with their C prototypes -/

structure Builtin where
  params : List CTy
  ret : CTy
  sem : List CVal → Out CVal

open CPrim in
def builtin1 : String → Option Builtin
  | "__builtin_clz" => some ⟨[.u32], .i32, fun
      | [.u32 x] => if x = 0 then .ub .builtinUndefined else .val (.i32 (BitVec.ofNat 32 (clz x)))
      | _ => .ub .typeError⟩
  | "__builtin_clzll" => some ⟨[.u64], .i32, fun
      | [.u64 x] => if x = 0 then .ub .builtinUndefined else .val (.i32 (BitVec.ofNat 32 (clz x)))
      | _ => .ub .typeError⟩
  | "__builtin_ctz" => some ⟨[.u32], .i32, fun
      | [.u32 x] => if x = 0 then .ub .builtinUndefined else .val (.i32 (BitVec.ofNat 32 (ctz x)))
      | _ => .ub .typeError⟩
  | "__builtin_ctzll" => some ⟨[.u64], .i32, fun
      | [.u64 x] => if x = 0 then .ub .builtinUndefined else .val (.i32 (BitVec.ofNat 32 (ctz x)))
      | _ => .ub .typeError⟩
  | "__builtin_popcount" => some ⟨[.u32], .i32, fun
      | [.u32 x] => .val (.i32 (BitVec.ofNat 32 (popcount x))) | _ => .ub .typeError⟩
  | "__builtin_popcountll" => some ⟨[.u64], .i32, fun
      | [.u64 x] => .val (.i32 (BitVec.ofNat 32 (popcount x))) | _ => .ub .typeError⟩
  | "__builtin_bswap16" => some ⟨[.u16], .u16, fun
      | [.u16 x] => .val (.u16 (bswap16 x)) | _ => .ub .typeError⟩
  | "__builtin_bswap32" => some ⟨[.u32], .u32, fun
      | [.u32 x] => .val (.u32 (bswap32 x)) | _ => .ub .typeError⟩
  | "__builtin_bswap64" => some ⟨[.u64], .u64, fun
      | [.u64 x] => .val (.u64 (bswap64 x)) | _ => .ub .typeError⟩
  | "fabsf" => some ⟨[.f32], .f32, fun
      | [.f32 x] => .val (.f32 (BitVec.ofNat 32 (SF.abs SF.f32 x.toNat))) | _ => .ub .typeError⟩
  | "fabs" => some ⟨[.f64], .f64, fun
      | [.f64 x] => .val (.f64 (BitVec.ofNat 64 (SF.abs SF.f64 x.toNat))) | _ => .ub .typeError⟩
  | "sqrtf" => some ⟨[.f32], .f32, fun
      | [.f32 x] => .val (.f32 (BitVec.ofNat 32 (SF.sqrt SF.f32 x.toNat))) | _ => .ub .typeError⟩
  | "sqrt" => some ⟨[.f64], .f64, fun
      | [.f64 x] => .val (.f64 (BitVec.ofNat 64 (SF.sqrt SF.f64 x.toNat))) | _ => .ub .typeError⟩
  | "truncf" => some ⟨[.f32], .f32, fun
      | [.f32 x] => .val (.f32 (BitVec.ofNat 32 (SF.rint SF.f32 0 x.toNat))) | _ => .ub .typeError⟩
  | "trunc" => some ⟨[.f64], .f64, fun
      | [.f64 x] => .val (.f64 (BitVec.ofNat 64 (SF.rint SF.f64 0 x.toNat))) | _ => .ub .typeError⟩
  | "floorf" => some ⟨[.f32], .f32, fun
      | [.f32 x] => .val (.f32 (BitVec.ofNat 32 (SF.rint SF.f32 1 x.toNat))) | _ => .ub .typeError⟩
  | "floor" => some ⟨[.f64], .f64, fun
      | [.f64 x] => .val (.f64 (BitVec.ofNat 64 (SF.rint SF.f64 1 x.toNat))) | _ => .ub .typeError⟩
  | "ceilf" => some ⟨[.f32], .f32, fun
      | [.f32 x] => .val (.f32 (BitVec.ofNat 32 (SF.rint SF.f32 2 x.toNat))) | _ => .ub .typeError⟩
  | "ceil" => some ⟨[.f64], .f64, fun
      | [.f64 x] => .val (.f64 (BitVec.ofNat 64 (SF.rint SF.f64 2 x.toNat))) | _ => .ub .typeError⟩
  | "nearbyintf" => some ⟨[.f32], .f32, fun
      | [.f32 x] => .val (.f32 (BitVec.ofNat 32 (SF.rint SF.f32 3 x.toNat))) | _ => .ub .typeError⟩
  | "nearbyint" => some ⟨[.f64], .f64, fun
      | [.f64 x] => .val (.f64 (BitVec.ofNat 64 (SF.rint SF.f64 3 x.toNat))) | _ => .ub .typeError⟩
  -- DEFINE_REINTERPRET instances (memcpy between equally sized objects); the extractor checks
  -- that the macro body still is that memcpy and that the four instantiations have these types
  | "f32_reinterpret_i32" => some ⟨[.u32], .f32, fun | [.u32 x] => .val (.f32 x) | _ => .ub .typeError⟩
  | "i32_reinterpret_f32" => some ⟨[.f32], .u32, fun | [.f32 x] => .val (.u32 x) | _ => .ub .typeError⟩
  | "f64_reinterpret_i64" => some ⟨[.u64], .f64, fun | [.u64 x] => .val (.f64 x) | _ => .ub .typeError⟩
  | "i64_reinterpret_f64" => some ⟨[.f64], .u64, fun | [.f64 x] => .val (.u64 x) | _ => .ub .typeError⟩
  | _ => none

def builtin2 : String → Option Builtin
  | "copysignf" => some ⟨[.f32, .f32], .f32, fun
      | [.f32 x, .f32 y] => .val (.f32 (BitVec.ofNat 32 (SF.copysign SF.f32 x.toNat y.toNat)))
      | _ => .ub .typeError⟩
  | "copysign" => some ⟨[.f64, .f64], .f64, fun
      | [.f64 x, .f64 y] => .val (.f64 (BitVec.ofNat 64 (SF.copysign SF.f64 x.toNat y.toNat)))
      | _ => .ub .typeError⟩
  | _ => none

/-- `signbit` is a type-generic macro: nonzero iff the sign bit is set -/
def signbitSem : CVal → Out CVal
  | .f32 x => .val (.ofBool (SF.signOf SF.f32 x.toNat))
  | .f64 x => .val (.ofBool (SF.signOf SF.f64 x.toNat))
  | _ => .ub .typeError

/-- user-level callable definitions (generated macros / inline functions): name ↦
    (result type given argument types, semantics) -/
structure FnDef where
  retTy : List CTy → CTy
  sem : List CVal → Out CVal

abbrev Defs := String → Option FnDef
abbrev Env := List (String × CVal)

def Env.get (ρ : Env) (n : String) : Option CVal :=
  match ρ with
  | [] => none
  | (k, v) :: r => if k = n then some v else Env.get r n

def Env.set (ρ : Env) (n : String) (v : CVal) : Env :=
  match ρ with
  | [] => [(n, v)]
  | (k, w) :: r => if k = n then (k, v) :: r else (k, w) :: Env.set r n v

/-- static type of an expression (needed for `?:`, whose result type depends on the branch not taken) -/
def CExpr.typeOf (defs : Defs) (ρ : Env) : CExpr → CTy
  | .var n => match ρ.get n with | some v => v.ty | none => .i32
  | .lit v => v.ty
  | .cast t _ => t
  | .un .lnot _ => .i32
  | .un _ e => (e.typeOf defs ρ).promote
  | .bin op a b =>
    if op.isCmp then .i32
    else match op with
      | .land | .lor => .i32
      | .shl | .shr => (a.typeOf defs ρ).promote
      | _ => CTy.common (a.typeOf defs ρ) (b.typeOf defs ρ)
  | .cond _ a b => CTy.common (a.typeOf defs ρ) (b.typeOf defs ρ)
  | .trap _ => .i32
  | .call1 f a =>
    if f = "signbit" then .i32 else
    match builtin1 f with
    | some b => b.ret
    | none => match defs f with | some d => d.retTy [a.typeOf defs ρ] | none => .i32
  | .call2 f a b =>
    match builtin2 f with
    | some bi => bi.ret
    | none => match defs f with | some d => d.retTy [a.typeOf defs ρ, b.typeOf defs ρ] | none => .i32

def CExpr.eval (defs : Defs) (ρ : Env) : CExpr → Out CVal
  | .var n => match ρ.get n with | some v => .val v | none => .ub .unboundVar
  | .lit v => .val v
  | .cast t e => do let v ← e.eval defs ρ; v.castInt t
  | .un op e => do let v ← e.eval defs ρ; v.unop op
  | .bin .land a b => do
    let x ← a.eval defs ρ
    if x.truthy then do let y ← b.eval defs ρ; .val (.ofBool y.truthy) else .val (.ofBool false)
  | .bin .lor a b => do
    let x ← a.eval defs ρ
    if x.truthy then .val (.ofBool true) else do let y ← b.eval defs ρ; .val (.ofBool y.truthy)
  | .bin .shl a b => do let x ← a.eval defs ρ; let y ← b.eval defs ρ; x.shift .shl y
  | .bin .shr a b => do let x ← a.eval defs ρ; let y ← b.eval defs ρ; x.shift .shr y
  | .bin op a b => do let x ← a.eval defs ρ; let y ← b.eval defs ρ; x.binop op y
  | .cond c a b => do
    let x ← c.eval defs ρ
    let t := CTy.common (a.typeOf defs ρ) (b.typeOf defs ρ)
    if x.truthy then do let v ← a.eval defs ρ; v.castInt t
    else do let v ← b.eval defs ρ; v.castInt t
  | .trap t => .trap t
  | .call1 f a => do
    let x ← a.eval defs ρ
    if f = "signbit" then signbitSem x else
    match builtin1 f with
    | some bi =>
      match bi.params with
      | [p] => do let x' ← x.castInt p; bi.sem [x']
      | _ => .ub .typeError
    | none => match defs f with | some d => d.sem [x] | none => .ub .unboundVar
  | .call2 f a b => do
    let x ← a.eval defs ρ
    let y ← b.eval defs ρ
    match builtin2 f with
    | some bi =>
      match bi.params with
      | [p, q] => do let x' ← x.castInt p; let y' ← y.castInt q; bi.sem [x', y']
      | _ => .ub .typeError
    | none => match defs f with | some d => d.sem [x, y] | none => .ub .unboundVar

/-! ### statements (bodies of the inline fallback functions, and `MiniC` later) -/

inductive CStmt
  | skip
  | seq (a b : CStmt)
  | decl (n : String) (t : CTy) (init : CExpr)
  | assign (n : String) (e : CExpr)
  | opAssign (n : String) (op : BinOp) (e : CExpr)   -- `n op= e`
  | ifThen (c : CExpr) (body : CStmt)
  | ret (e : CExpr)
  deriving Repr, Inhabited

/-- result of running a statement: either fall through with a new environment or return -/
inductive Flow | next (ρ : Env) | ret (v : CVal)
  deriving Repr, Inhabited

def CStmt.exec (defs : Defs) : CStmt → Env → Out Flow
  | .skip, ρ => .val (.next ρ)
  | .seq a b, ρ => do
    match ← a.exec defs ρ with
    | .next ρ' => b.exec defs ρ'
    | .ret v => .val (.ret v)
  | .decl n t e, ρ => do
    let v ← e.eval defs ρ
    let v' ← v.castInt t
    .val (.next ((n, v') :: ρ))
  | .assign n e, ρ => do
    let some old := ρ.get n | .ub .unboundVar
    let v ← e.eval defs ρ
    let v' ← v.castInt old.ty
    .val (.next (ρ.set n v'))
  | .opAssign n op e, ρ => do
    let some old := ρ.get n | .ub .unboundVar
    let v ← e.eval defs ρ
    let r ← match op with
      | .shl | .shr => old.shift op v
      | _ => old.binop op v
    let r' ← r.castInt old.ty
    .val (.next (ρ.set n r'))
  | .ifThen c body, ρ => do
    let x ← c.eval defs ρ
    if x.truthy then body.exec defs ρ else .val (.next ρ)
  | .ret e, ρ => do let v ← e.eval defs ρ; .val (.ret v)

/-- continuation of a statement sequence, as a function of the first statement's outcome
    (kept as a named function so that proofs can evaluate a body path by path) -/
def CStmt.stepK (defs : Defs) (b : CStmt) (r : Out Flow) : Out Flow :=
  match r with
  | .val (.next ρ') => b.exec defs ρ'
  | .val (.ret v) => .val (.ret v)
  | .trap t => .trap t
  | .ub k => .ub k
  | .oof => .oof

theorem CStmt.exec_seq (defs : Defs) (a b : CStmt) (ρ : Env) :
    (CStmt.seq a b).exec defs ρ = CStmt.stepK defs b (a.exec defs ρ) := by
  simp only [CStmt.exec, CStmt.stepK]
  cases h : a.exec defs ρ with
  | val f => cases f <;> rfl
  | trap t => rfl
  | ub k => rfl
  | oof => rfl

theorem CStmt.exec_skip (defs : Defs) (ρ : Env) : CStmt.skip.exec defs ρ = .val (.next ρ) := rfl
theorem CStmt.exec_decl (defs : Defs) (n t e) (ρ : Env) : (CStmt.decl n t e).exec defs ρ =
    (e.eval defs ρ >>= fun v => v.castInt t >>= fun v' => .val (.next ((n, v') :: ρ))) := rfl
theorem CStmt.exec_assign (defs : Defs) (n e) (ρ : Env) : (CStmt.assign n e).exec defs ρ =
    (match ρ.get n with
     | some old => e.eval defs ρ >>= fun v => v.castInt old.ty >>= fun v' => .val (.next (ρ.set n v'))
     | none => .ub .unboundVar) := by
  simp only [CStmt.exec]; cases ρ.get n <;> rfl
theorem CStmt.exec_opAssign (defs : Defs) (n op e) (ρ : Env) : (CStmt.opAssign n op e).exec defs ρ =
    (match ρ.get n with
     | some old => e.eval defs ρ >>= fun v =>
        (match op with | .shl | .shr => old.shift op v | _ => old.binop op v) >>= fun r =>
        r.castInt old.ty >>= fun r' => .val (.next (ρ.set n r'))
     | none => .ub .unboundVar) := by
  simp only [CStmt.exec]; cases ρ.get n <;> cases op <;> rfl
theorem CStmt.exec_ifThen (defs : Defs) (c body) (ρ : Env) : (CStmt.ifThen c body).exec defs ρ =
    (c.eval defs ρ >>= fun x => if x.truthy then body.exec defs ρ else .val (.next ρ)) := rfl
theorem CStmt.exec_ret (defs : Defs) (e) (ρ : Env) : (CStmt.ret e).exec defs ρ =
    (e.eval defs ρ >>= fun v => .val (.ret v)) := rfl

@[simp] theorem CStmt.stepK_next (defs b ρ') : CStmt.stepK defs b (.val (.next ρ')) = b.exec defs ρ' := rfl
@[simp] theorem CStmt.stepK_ret (defs b v) : CStmt.stepK defs b (.val (.ret v)) = .val (.ret v) := rfl
@[simp] theorem CStmt.stepK_ub (defs b k) : CStmt.stepK defs b (.ub k) = .ub k := rfl
@[simp] theorem CStmt.stepK_trap (defs b t) : CStmt.stepK defs b (.trap t) = .trap t := rfl

/-- conversion of a function body's outcome to the call's result -/
def CFunc.finishK (ret : CTy) (r : Out Flow) : Out CVal :=
  match r with
  | .val (.ret v) => v.castInt ret
  | .val (.next _) => .ub .typeError
  | .trap t => .trap t
  | .ub k => .ub k
  | .oof => .oof

/-- a C function: typed parameters, body, declared result type -/
structure CFunc where
  params : List (String × CTy)
  ret : CTy
  body : CStmt

def bindParams : List (String × CTy) → List CVal → Out Env
  | [], [] => .val []
  | (n, t) :: ps, v :: vs => do
    let v' ← v.castInt t
    let r ← bindParams ps vs
    .val ((n, v') :: r)
  | _, _ => .ub .typeError

def CFunc.call (defs : Defs) (f : CFunc) (args : List CVal) : Out CVal := do
  let ρ ← bindParams f.params args
  CFunc.finishK f.ret (f.body.exec defs ρ)   -- falling off the end of a value-returning function is UB

@[simp] theorem CFunc.finishK_ret (t v) : CFunc.finishK t (.val (.ret v)) = v.castInt t := rfl
@[simp] theorem CFunc.finishK_ub (t k) : CFunc.finishK t (.ub k) = .ub k := rfl
@[simp] theorem CFunc.finishK_trap (t tr) : CFunc.finishK t (.trap tr) = .trap tr := rfl

/-- a function-like macro whose body is an expression: parameters are substituted by value
    (arguments in emitted code are always side-effect-free variables) -/
structure CMacro where
  params : List String
  body : CExpr

def CMacro.call (defs : Defs) (m : CMacro) (args : List CVal) : Out CVal :=
  m.body.eval defs (m.params.zip args)

def CMacro.retTy (defs : Defs) (m : CMacro) (tys : List CTy) : CTy :=
  m.body.typeOf defs (m.params.zip (tys.map fun t => CVal.ofBits t 0))

end W2c2Verif
